---------------------------- MODULE CodecCases ----------------------------
(* The case analysis of Codec.tla as something TLC walks: one state per case, each printed as JSON
   (abstract content, expected field list, bytes).  See Codec.tla for what the harness does with it. *)
EXTENDS Codec, Json, SequencesExt

CONSTANT Dir       \* "in": server-to-client packets (C03);  "out": client-to-server packets (C02)

----------------------------------------------------------------------------------------------------
\* sample values per property, by type; chosen so that every byte of the value is distinguishable
SampleVal(id) ==
    CASE id = 36 -> 1                              \* Maximum QoS: 0 or 1 only (3.2.2.3.4)
      [] id = 1 -> 1                               \* Payload Format Indicator: 0 or 1
      [] PropType(id) = "byte" -> 1
      [] PropType(id) = "u16" -> 4660              \* 0x1234
      [] PropType(id) = "u32" -> 16909060          \* 0x01020304
      [] PropType(id) = "vbi" -> 321               \* two-byte variable byte integer
      [] PropType(id) = "str" -> S(3, 97 + (id % 20))
      [] PropType(id) = "bin" -> S(2, id)
      [] OTHER -> [k |-> S(1, 107), v |-> S(2, 118)]
AltVal(id) ==
    CASE PropType(id) = "byte" -> 0
      [] PropType(id) = "u16" -> 65535
      [] PropType(id) = "u32" -> 2147483647
      [] PropType(id) = "vbi" -> 268435455
      [] id = 8 -> S(1, 114)                          \* a Response Topic is a topic name: at least one character (4.7.3)
      [] PropType(id) = "str" -> S(0, 0)
      [] PropType(id) = "bin" -> S(0, 0)
      [] OTHER -> [k |-> S(0, 0), v |-> S(0, 0)]
Pr(id) == [id |-> id, v |-> SampleVal(id)]
Pr2(id) == [id |-> id, v |-> AltVal(id)]
AllProps(ctx) == [i \in 1..Len(PropsOf(ctx)) |-> Pr(PropsOf(ctx)[i])]

\* property-section variants of a packet kind: none, each alone (two values), all, all reversed, repeated where allowed
PropVariants(ctx) ==
    LET ids == PropsOf(ctx)
        all == AllProps(ctx)
        rep == SelectSeq(ids, LAMBDA id : Repeatable(ctx, id))
    IN << <<>> >>
       \o [i \in 1..Len(ids) |-> <<Pr(ids[i])>>]
       \o [i \in 1..Len(ids) |-> <<Pr2(ids[i])>>]
       \o <<all, Reverse(all)>>
       \o [i \in 1..Len(rep) |-> all \o <<Pr2(rep[i]), Pr(rep[i])>>]

\* property sections whose length sits on and around each boundary of the Property Length variable byte integer:
\* `base` followed by one user property whose value is as long as it takes
PropLens == <<126, 127, 128, 129, 16382, 16383, 16384, 16385>>
Filler(n) == [id |-> 38, v |-> [k |-> S(1, 107), v |-> S(n, 118)]]
PropBoundary(base) == [i \in 1..Len(PropLens) |-> base \o <<Filler(PropLens[i] - LLen(PropsBytes(base)) - 6)>>]

\* malformed property sections (the decoder must answer with an error or tolerate them, never panic)
BadPropVariants(ctx) ==
    LET ids == PropsOf(ctx)
        single == SelectSeq(ids, LAMBDA id : ~Repeatable(ctx, id))
        foreign == SelectSeq(<<1, 11, 17, 19, 24, 35, 36>>, LAMBDA id : \A i \in 1..Len(ids) : ids[i] # id)
    IN [i \in 1..Len(single) |-> [class |-> "duplicate-property", props |-> <<Pr(single[i]), Pr(single[i])>>]]
       \o [i \in 1..Len(foreign) |-> [class |-> "foreign-property", props |-> <<Pr(foreign[i])>>]]
       \o <<[class |-> "unknown-property", props |-> <<[id |-> 127, v |-> 1]>>]>>

----------------------------------------------------------------------------------------------------
\* expected decoded content: a list of [name, t, v]

Fld(name, t, v) == [name |-> name, t |-> t, v |-> v]
PropFields(ctx, props) ==
    LET ids == PropsOf(ctx)
        of(id) == SelectSeq(props, LAMBDA pr : pr.id = id)
        one(id) == LET v == of(id)[1].v
                       ty == PropType(id)
                   IN CASE IsFlagProp(id) -> Fld(PropName(ctx, id), "flag", v # 0)
                        [] ty \in {"byte", "u16", "u32", "vbi"} -> Fld(PropName(ctx, id), "u", v)
                        [] ty = "str" -> Fld(PropName(ctx, id), "s", v)
                        [] OTHER -> Fld(PropName(ctx, id), "bin", v)
    IN [i \in 1..Len(ids) |->
          LET id == ids[i] IN
          IF of(id) = <<>> THEN Fld(PropName(ctx, id), "none", 0)
          ELSE IF id = 38 THEN Fld(PropName(ctx, id), "pairs", [j \in 1..Len(of(id)) |-> of(id)[j].v])
          ELSE IF Repeatable(ctx, id) THEN Fld(PropName(ctx, id), "ulist", [j \in 1..Len(of(id)) |-> of(id)[j].v])
          ELSE one(id)]

Fields(p) ==
    LET pf == IF p.v5 THEN PropFields(p.type, p.props) ELSE PropFields(p.type, <<>>) IN
    \* name@api: the value a client API shows where it differs from the value on the wire
    CASE p.type = "CONNACK" -> <<Fld("session_present", "flag", p.sp), Fld("reason_code", "u", p.rc)>>
                               \o (IF p.v5 THEN <<>> ELSE <<Fld("reason_code@api", "u", ReturnCodeMeaning(p.rc))>>) \o pf
      [] p.type = "PUBLISH" -> <<Fld("packet_id", "u", IF p.qos > 0 THEN p.pid ELSE 0), Fld("topic", "s", p.topic), Fld("qos", "u", p.qos),
                                 Fld("duplicate", "flag", p.dup), Fld("retain", "flag", p.retain), Fld("payload", "bin", p.payload)>> \o pf
      [] p.type \in {"PUBACK", "PUBREC", "PUBREL", "PUBCOMP"} ->
             <<Fld("packet_id", "u", p.pid), Fld("reason_code", "u", IF p.v5 /\ p.form # "short" THEN p.rc ELSE 0)>>
             \o (IF p.v5 /\ p.form = "full" THEN pf ELSE PropFields(p.type, <<>>))
      [] p.type \in {"SUBACK", "UNSUBACK"} -> <<Fld("packet_id", "u", p.pid), Fld("reason_codes", "codes", IF p.type = "UNSUBACK" /\ ~p.v5 THEN <<>> ELSE p.codes)>> \o pf
      [] p.type = "DISCONNECT" -> <<Fld("reason_code", "u", IF p.v5 /\ p.form # "short" THEN p.rc ELSE 0)>>
                                  \o (IF p.v5 /\ p.form = "full" THEN pf ELSE PropFields(p.type, <<>>))
      [] OTHER -> <<>>

----------------------------------------------------------------------------------------------------
\* server-to-client cases

Legal(p, note) == [class |-> "legal", note |-> note, p |-> p]
Bad(class, p, note) == [class |-> class, note |-> note, p |-> p]
SetSeq(T) == SetToSeq(T)

Connack(v5, sp, rc, props) == [type |-> "CONNACK", v5 |-> v5, sp |-> sp, rc |-> rc, props |-> props]
Publish(v5, dup, qos, retain, topic, pid, props, payload) ==
    [type |-> "PUBLISH", v5 |-> v5, dup |-> dup, qos |-> qos, retain |-> retain, topic |-> topic, pid |-> pid, props |-> props, payload |-> payload]
Ack(type, v5, pid, rc, props, form) == [type |-> type, v5 |-> v5, pid |-> pid, rc |-> rc, props |-> props, form |-> form]
Codes(type, v5, pid, props, codes) == [type |-> type, v5 |-> v5, pid |-> pid, props |-> props, codes |-> codes]
Disc(v5, rc, props, form) == [type |-> "DISCONNECT", v5 |-> v5, rc |-> rc, props |-> props, form |-> form]

AckTypes == <<"PUBACK", "PUBREC", "PUBREL", "PUBCOMP">>
Lens == <<0, 1, 127, 128, 65535>>
\* payload sizes that put the remaining length of a minimal QoS 0 PUBLISH (2 + 3 topic + 1 property length = 6 bytes of
\* overhead) on each boundary of the variable byte integer
RemLens == <<127, 128, 16383, 16384, 2097151, 2097152>>

In5 ==
    LET rcs(t) == SetSeq(ReasonCodes(t, TRUE))
        pv(t) == PropVariants(t)
        bad(t) == BadPropVariants(t)
        badrc(t) == SetSeq({1, 3, 127, 200, 255} \ ReasonCodes(t, TRUE))
    IN  \* CONNACK
        [i \in 1..Len(rcs("CONNACK")) |-> Legal(Connack(TRUE, FALSE, rcs("CONNACK")[i], <<>>), "reason code")]
        \o <<Legal(Connack(TRUE, TRUE, 0, <<>>), "session present")>>
        \o [i \in 1..Len(pv("CONNACK")) |-> Legal(Connack(TRUE, FALSE, 0, pv("CONNACK")[i]), "properties")]
        \o [i \in 1..Len(Lens) |-> Legal(Connack(TRUE, FALSE, 0, <<[id |-> 31, v |-> S(Lens[i], 114)]>>), "string length")]
        \o [i \in 1..Len(PropLens) |-> Legal(Connack(TRUE, FALSE, 0, PropBoundary(<<Pr(33)>>)[i]), "property length boundary")]
        \o [i \in 1..Len(bad("CONNACK")) |-> Bad(bad("CONNACK")[i].class, Connack(TRUE, FALSE, 0, bad("CONNACK")[i].props), "")]
        \o [i \in 1..Len(badrc("CONNACK")) |-> Bad("illegal-reason-code", Connack(TRUE, FALSE, badrc("CONNACK")[i], <<>>), "")]
        \* PUBLISH
        \o SetSeq({Legal(Publish(TRUE, d, q, r, S(3, 116), 258, <<>>, S(n, 112)), "flags") :
                     d \in BOOLEAN, q \in 0..2, r \in BOOLEAN, n \in {0, 1, 100}} \ {Legal(Publish(TRUE, TRUE, 0, r, S(3, 116), 258, <<>>, S(n, 112)), "flags") : r \in BOOLEAN, n \in {0, 1, 100}})
        \o [i \in 1..Len(pv("PUBLISH")) |-> Legal(Publish(TRUE, FALSE, 1, FALSE, S(3, 116), 7, pv("PUBLISH")[i], S(4, 112)), "properties")]
        \o <<Legal(Publish(TRUE, FALSE, 0, FALSE, S(0, 0), 0, <<Pr(35)>>, S(4, 112)), "alias with empty topic")>>
        \o [i \in 1..Len(PropLens) |-> Legal(Publish(TRUE, FALSE, 1, FALSE, S(3, 116), 9, PropBoundary(<<>>)[i], S(2, 112)), "property length boundary")]
        \o [i \in 1..Len(PropLens) |-> Legal(Publish(TRUE, FALSE, 1, FALSE, S(3, 116), 9, PropBoundary(<<Pr(35), Pr(3)>>)[i], S(2, 112)), "property length boundary with alias")]
        \o [i \in 1..Len(RemLens) |-> Legal(Publish(TRUE, FALSE, 0, FALSE, S(3, 116), 0, <<>>, S(RemLens[i] - 6, 112)), "remaining length boundary")]
        \o [i \in 1..Len(Lens) |-> Legal(Publish(TRUE, FALSE, 0, FALSE, S(IF Lens[i] = 0 THEN 1 ELSE Lens[i], 116), 0, <<>>, S(1, 112)), "topic length")]
        \o [i \in 1..Len(bad("PUBLISH")) |-> Bad(bad("PUBLISH")[i].class, Publish(TRUE, FALSE, 1, FALSE, S(3, 116), 7, bad("PUBLISH")[i].props, S(1, 112)), "")]
        \o <<Bad("qos-3", Publish(TRUE, FALSE, 3, FALSE, S(3, 116), 7, <<>>, S(1, 112)), "")>>
        \* PUBACK PUBREC PUBREL PUBCOMP
        \o Cat([k \in 1..4 |->
               LET t == AckTypes[k] IN
               <<Legal(Ack(t, TRUE, 513, 0, <<>>, "short"), "identifier only")>>
               \o [i \in 1..Len(rcs(t)) |-> Legal(Ack(t, TRUE, 513, rcs(t)[i], <<>>, "rc"), "reason code")]
               \o [i \in 1..Len(rcs(t)) |-> Legal(Ack(t, TRUE, 65535, rcs(t)[i], <<>>, "full"), "reason code and empty property section")]
               \o [i \in 1..Len(pv(t)) |-> Legal(Ack(t, TRUE, 1, 0, pv(t)[i], "full"), "properties")]
               \o [i \in 1..Len(PropLens) |-> Legal(Ack(t, TRUE, 1, 0, PropBoundary(<<>>)[i], "full"), "property length boundary")]
               \o [i \in 1..Len(bad(t)) |-> Bad(bad(t)[i].class, Ack(t, TRUE, 1, 0, bad(t)[i].props, "full"), "")]
               \o [i \in 1..Len(badrc(t)) |-> Bad("illegal-reason-code", Ack(t, TRUE, 1, badrc(t)[i], <<>>, "rc"), "")]])
        \* SUBACK UNSUBACK
        \o Cat([k \in 1..2 |->
               LET t == <<"SUBACK", "UNSUBACK">>[k] IN
               [i \in 1..Len(rcs(t)) |-> Legal(Codes(t, TRUE, 2, <<>>, <<rcs(t)[i]>>), "reason code")]
               \o <<Legal(Codes(t, TRUE, 3, <<>>, rcs(t)), "every reason code in one packet")>>
               \o [i \in 1..Len(pv(t)) |-> Legal(Codes(t, TRUE, 4, pv(t)[i], <<0, 128>>), "properties")]
               \o [i \in 1..Len(bad(t)) |-> Bad(bad(t)[i].class, Codes(t, TRUE, 4, bad(t)[i].props, <<0>>), "")]
               \o [i \in 1..Len(badrc(t)) |-> Bad("illegal-reason-code", Codes(t, TRUE, 4, <<>>, <<0, badrc(t)[i]>>), "")]])
        \* DISCONNECT
        \o <<Legal(Disc(TRUE, 0, <<>>, "short"), "remaining length 0")>>
        \o [i \in 1..Len(rcs("DISCONNECT")) |-> Legal(Disc(TRUE, rcs("DISCONNECT")[i], <<>>, "rc"), "reason code")]
        \o [i \in 1..Len(pv("DISCONNECT")) |-> Legal(Disc(TRUE, 139, pv("DISCONNECT")[i], "full"), "properties")]
        \o [i \in 1..Len(PropLens) |-> Legal(Disc(TRUE, 139, PropBoundary(<<Pr(31)>>)[i], "full"), "property length boundary")]
        \o [i \in 1..Len(bad("DISCONNECT")) |-> Bad(bad("DISCONNECT")[i].class, Disc(TRUE, 0, bad("DISCONNECT")[i].props, "full"), "")]
        \o [i \in 1..Len(badrc("DISCONNECT")) |-> Bad("illegal-reason-code", Disc(TRUE, badrc("DISCONNECT")[i], <<>>, "rc"), "")]
        \o <<Legal([type |-> "PINGRESP", v5 |-> TRUE], "")>>

In311 ==
    LET rcs(t) == SetSeq(ReasonCodes(t, FALSE)) IN
        [i \in 1..Len(rcs("CONNACK")) |-> Legal(Connack(FALSE, FALSE, rcs("CONNACK")[i], <<>>), "return code")]
        \o <<Legal(Connack(FALSE, TRUE, 0, <<>>), "session present")>>
        \o <<Bad("illegal-reason-code", Connack(FALSE, FALSE, 6, <<>>), ""), Bad("illegal-reason-code", Connack(FALSE, FALSE, 128, <<>>), "")>>
        \o SetSeq({Legal(Publish(FALSE, d, q, r, S(3, 116), 258, <<>>, S(n, 112)), "flags") : d \in BOOLEAN, q \in 0..2, r \in BOOLEAN, n \in {0, 1, 100}}
                  \ {Legal(Publish(FALSE, TRUE, 0, r, S(3, 116), 258, <<>>, S(n, 112)), "flags") : r \in BOOLEAN, n \in {0, 1, 100}})
        \o [i \in 1..Len(RemLens) |-> Legal(Publish(FALSE, FALSE, 0, FALSE, S(3, 116), 0, <<>>, S(RemLens[i] - 5, 112)), "remaining length boundary")]
        \o [k \in 1..4 |-> Legal(Ack(AckTypes[k], FALSE, 513, 0, <<>>, "short"), "identifier only")]
        \o [i \in 1..Len(rcs("SUBACK")) |-> Legal(Codes("SUBACK", FALSE, 2, <<>>, <<rcs("SUBACK")[i]>>), "return code")]
        \o <<Legal(Codes("SUBACK", FALSE, 3, <<>>, <<0, 1, 2, 128>>), "every return code"), Bad("illegal-reason-code", Codes("SUBACK", FALSE, 3, <<>>, <<3>>), "")>>
        \o <<Legal(Codes("UNSUBACK", FALSE, 9, <<>>, <<>>), ""), Legal([type |-> "PINGRESP", v5 |-> FALSE], "")>>

----------------------------------------------------------------------------------------------------
\* client-to-server cases (what the client can be made to emit through its public API)

ClientDisconnectCodes == {0, 4, 128, 129, 130, 131, 144, 147, 148, 149, 150, 151, 152, 153}
ServerOnlyDisconnectCodes == {135, 137, 139, 141, 142, 143, 154, 155, 156, 157, 158, 159, 160, 161, 162}
Will(qos, retain, topic, payload, props) == [qos |-> qos, retain |-> retain, topic |-> topic, payload |-> payload, props |-> props]
NoWill == Will(0, FALSE, S(0, 0), S(0, 0), <<>>)
Connect(v5, clean, ka, cid, hasWill, will, hasUser, user, hasPass, pass, props) ==
    [type |-> "CONNECT", v5 |-> v5, clean |-> clean, keepalive |-> ka, cid |-> cid, hasWill |-> hasWill, will |-> will,
     hasUser |-> hasUser, user |-> user, hasPass |-> hasPass, pass |-> pass, props |-> props]
SubE(filter, qos, nl, rap, rh) == [filter |-> filter, qos |-> qos, nl |-> nl, rap |-> rap, rh |-> rh]
Subscribe(v5, pid, props, subs) == [type |-> "SUBSCRIBE", v5 |-> v5, pid |-> pid, props |-> props, subs |-> subs]
Unsubscribe(v5, pid, props, filters) == [type |-> "UNSUBSCRIBE", v5 |-> v5, pid |-> pid, props |-> props, filters |-> filters]

\* properties the public builders cannot set on a client packet are left out of its variants
Without(vs, ids) == SelectSeq(vs, LAMBDA props : \A i \in 1..Len(props) : props[i].id \notin ids)

Out(v5) ==
    LET pvc == IF v5 THEN PropVariants("CONNECT") ELSE << <<>> >>
        pvw == IF v5 THEN PropVariants("WILL") ELSE << <<>> >>
        pvp == IF v5 THEN Without(PropVariants("PUBLISH"), {11}) ELSE << <<>> >>      \* a client never sends subscription identifiers in PUBLISH
        pvs == IF v5 THEN PropVariants("SUBSCRIBE") ELSE << <<>> >>
        pvu == IF v5 THEN PropVariants("UNSUBSCRIBE") ELSE << <<>> >>
        pvd == IF v5 THEN PropVariants("DISCONNECT") ELSE << <<>> >>
    IN  \* 3.1.1 [MQTT-3.1.2-22]: "If the User Name Flag is set to 0, the Password Flag MUST be set to 0" (MQTT 5 dropped the rule)
        SetSeq({IF v5 \/ hu \/ ~hp THEN Legal(Connect(v5, c, ka, S(n, 99), FALSE, NoWill, hu, S(2, 117), hp, S(3, 119), <<>>), "flags")
                ELSE Bad("password-without-user-name", Connect(v5, c, ka, S(n, 99), FALSE, NoWill, hu, S(2, 117), hp, S(3, 119), <<>>), "the API can express it")
                : c \in BOOLEAN, ka \in {0, 1200}, n \in {0, 5}, hu \in BOOLEAN, hp \in BOOLEAN})
        \o [i \in 1..Len(pvc) |-> Legal(Connect(v5, TRUE, 60, S(4, 99), FALSE, NoWill, FALSE, S(0, 0), FALSE, S(0, 0), pvc[i]), "properties")]
        \o SetSeq({Legal(Connect(v5, TRUE, 60, S(4, 99), TRUE, Will(q, r, S(3, 119), S(n, 112), <<>>), TRUE, S(2, 117), TRUE, S(3, 119), <<>>), "will flags") :
                   q \in 0..2, r \in BOOLEAN, n \in {0, 9}})
        \o [i \in 1..Len(pvw) |-> Legal(Connect(v5, TRUE, 60, S(4, 99), TRUE, Will(1, FALSE, S(3, 119), S(2, 112), pvw[i]), FALSE, S(0, 0), FALSE, S(0, 0), <<>>), "will properties")]
        \o [i \in 1..Len(Lens) |-> Legal(Connect(v5, TRUE, 60, S(Lens[i], 99), FALSE, NoWill, TRUE, S(Lens[i], 117), TRUE, S(Lens[i], 119), <<>>), "string lengths")]
        \o SetSeq({Legal(Publish(v5, d, q, r, S(3, 116), 258, <<>>, S(n, 112)), "flags") : d \in BOOLEAN, q \in 0..2, r \in BOOLEAN, n \in {0, 1, 100}}
                  \ {Legal(Publish(v5, TRUE, 0, r, S(3, 116), 258, <<>>, S(n, 112)), "flags") : r \in BOOLEAN, n \in {0, 1, 100}})
        \o [i \in 1..Len(pvp) |-> Legal(Publish(v5, FALSE, 1, FALSE, S(3, 116), 7, pvp[i], S(4, 112)), "properties")]
        \o (IF v5 THEN [i \in 1..Len(PropLens) |-> Legal(Publish(v5, FALSE, 1, FALSE, S(3, 116), 7, PropBoundary(<<>>)[i], S(2, 112)), "property length boundary")]
                        \o [i \in 1..Len(PropLens) |-> Legal(Publish(v5, FALSE, 2, FALSE, S(3, 116), 7, PropBoundary(<<Pr(35)>>)[i], S(2, 112)), "property length boundary with alias")]
                        \o [i \in 1..Len(PropLens) |-> Legal(Publish(v5, FALSE, 0, FALSE, S(3, 116), 0, PropBoundary(<<Pr(35), Pr(3), Pr(2)>>)[i], S(0, 0)), "property length boundary with alias, no payload")]
                        \o [i \in 1..Len(PropLens) |-> Legal(Connect(v5, TRUE, 60, S(4, 99), FALSE, NoWill, FALSE, S(0, 0), FALSE, S(0, 0), PropBoundary(<<Pr(33)>>)[i]), "property length boundary")]
                        \o [i \in 1..Len(PropLens) |-> Legal(Connect(v5, TRUE, 60, S(4, 99), TRUE, Will(1, FALSE, S(3, 119), S(2, 112), PropBoundary(<<Pr(24)>>)[i]), FALSE, S(0, 0), FALSE, S(0, 0), <<>>), "will property length boundary")]
                        \o [i \in 1..Len(PropLens) |-> Legal(Subscribe(v5, 10, PropBoundary(<<Pr(11)>>)[i], <<SubE(S(3, 102), 1, FALSE, FALSE, 0)>>), "property length boundary")]
                        \o [i \in 1..Len(PropLens) |-> Legal(Unsubscribe(v5, 12, PropBoundary(<<>>)[i], <<S(3, 102)>>), "property length boundary")]
                        \o [i \in 1..Len(PropLens) |-> Legal(Disc(v5, 4, PropBoundary(<<Pr(31)>>)[i], "full"), "property length boundary")]
            ELSE <<>>)
        \o [i \in 1..Len(RemLens) |-> Legal(Publish(v5, FALSE, 0, FALSE, S(3, 116), 0, <<>>, S(RemLens[i] - (IF v5 THEN 6 ELSE 5), 112)), "remaining length boundary")]
        \o [i \in 1..Len(Lens) |-> Legal(Publish(v5, FALSE, 2, TRUE, S(IF Lens[i] = 0 THEN 1 ELSE Lens[i], 116), 65535, <<>>, S(1, 112)), "topic length")]
        \o [i \in 1..Len(pvs) |-> Legal(Subscribe(v5, 10, pvs[i], <<SubE(S(3, 102), 1, FALSE, FALSE, 0)>>), "properties")]
        \o SetSeq({Legal(Subscribe(v5, 11, <<>>, <<SubE(S(3, 102), q, nl, rap, rh), SubE(S(1, 103), 0, FALSE, FALSE, 0)>>), "subscription options") :
                   q \in 0..2, nl \in BOOLEAN, rap \in BOOLEAN, rh \in 0..2})
        \o [i \in 1..Len(pvu) |-> Legal(Unsubscribe(v5, 12, pvu[i], <<S(3, 102), S(200, 103)>>), "properties")]
        \o [i \in 1..Len(pvd) |-> Legal(Disc(v5, IF Len(pvd[i]) = 0 THEN 0 ELSE 4, pvd[i], "full"), "properties")]
        \o <<Legal(Disc(v5, 0, <<>>, "full"), "normal disconnection")>>
        \* 3.14.2.1: reason codes a client may send, and the ones only a server may send
        \o (IF v5 THEN [i \in 1..Len(SetSeq(ClientDisconnectCodes)) |-> Legal(Disc(v5, SetSeq(ClientDisconnectCodes)[i], <<>>, "full"), "client reason code")]
                        \o [i \in 1..Len(SetSeq(ServerOnlyDisconnectCodes)) |-> Bad("server-only-reason-code", Disc(v5, SetSeq(ServerOnlyDisconnectCodes)[i], <<>>, "full"), "the API can express it")]
            ELSE <<>>)
        \o [k \in 1..4 |-> Legal(Ack(AckTypes[k], v5, 4660, 0, <<>>, "short"), "acknowledgement generated by the client")]
        \o <<Legal([type |-> "PINGREQ", v5 |-> v5], "")>>

All == IF Dir = "in" THEN In5 \o In311 ELSE Out(TRUE) \o Out(FALSE)

Export(c) == [class |-> c.class, note |-> c.note, p |-> c.p, fields |-> IF Dir = "in" THEN Fields(c.p) ELSE <<>>,
              layout |-> Layout(c.p), len |-> LLen(Layout(c.p))]

VARIABLE rest
Init == rest = All
Next == /\ rest # <<>>
        /\ PrintT(<<"CASE", ToJson(Export(Head(rest)))>>)
        /\ rest' = Tail(rest)
Spec == Init /\ [][Next]_rest

\* sanity of the transcription itself, checked on every case: the remaining length is the length of what follows it
RemainingLengthRight ==
    rest # <<>> =>
        LET L == Layout(Head(rest).p)
            body == Body(Head(rest).p)
        IN LLen(L) = 1 + LLen(Vbi(LLen(body))) + LLen(body)
=============================================================================
