------------------------------- MODULE Codec -------------------------------
(***************************************************************************************************
 MQTT 5 and MQTT 3.1.1 wire layout, transcribed from the OASIS specifications (MQTT Version 5.0,
 sections 2 and 3; MQTT Version 3.1.1, sections 2 and 3) - not from gneiss-mqtt's encoder or
 decoder and not from the harness's reference codec.  It is the arbiter between the two:

   * Layout(p) is the byte string of an abstract packet p, as a sequence of runs <<n, b>> (n copies
     of byte b) so that fields of 65 535 bytes cost nothing; fixed header flags, remaining length
     and property length are computed here, from the text of the specification;
   * PropType / PropName / PropsOf are the property table of section 2.2.2.2 and the per-packet
     property lists; ReasonCodes is the table of section 2.4 per packet type;
   * Cases(dir, v5) enumerates the case analysis: every packet kind, every reason code the
     specification admits for it, every property alone / all together / repeated where allowed /
     in reversed order, every flag combination, boundary lengths of every string and binary field
     and of the remaining length.

 TLC walks the enumeration (CodecCases: one state per case) and prints each case as JSON:
 the abstract content and the bytes.  The harness feeds the bytes of the server-to-client cases to
 the crate's decoder under many chunkings and compares with the content (C03), builds the
 client-to-server cases through the crate's public builders, encodes them under many buffer
 capacities and compares with the bytes (C02), and runs its own reference codec over both (which
 qualifies the reference codec that every engine-level check relies on).
 ***************************************************************************************************)
EXTENDS Naturals, Integers, Sequences, FiniteSets, TLC

----------------------------------------------------------------------------------------------------
\* byte runs

B(v) == << <<1, v>> >>
U16(v) == << <<1, v \div 256>>, <<1, v % 256>> >>
U32(v) == << <<1, v \div 16777216>>, <<1, (v \div 65536) % 256>>, <<1, (v \div 256) % 256>>, <<1, v % 256>> >>
RECURSIVE Vbi(_)
Vbi(v) == IF v < 128 THEN B(v) ELSE B((v % 128) + 128) \o Vbi(v \div 128)      \* 1.5.5 Variable Byte Integer
Raw(x) == IF x.n = 0 THEN <<>> ELSE << <<x.n, x.b>> >>                           \* x = [n |-> length, b |-> fill byte]
Bin(x) == U16(x.n) \o Raw(x)                                                     \* 1.5.6 Binary Data / 1.5.4 UTF-8 String
RECURSIVE LLen(_)
LLen(L) == IF L = <<>> THEN 0 ELSE Head(L)[1] + LLen(Tail(L))
RECURSIVE Cat(_)
Cat(Ls) == IF Ls = <<>> THEN <<>> ELSE Head(Ls) \o Cat(Tail(Ls))

S(n, b) == [n |-> n, b |-> b]
Lit(bytes) == [i \in 1..Len(bytes) |-> <<1, bytes[i]>>]

----------------------------------------------------------------------------------------------------
\* 2.2.2.2 Property: identifier -> type;  per packet: which identifiers, under which field name

PropType(id) ==
    CASE id \in {1, 23, 25, 36, 37, 40, 41, 42} -> "byte"
      [] id \in {19, 33, 34, 35} -> "u16"
      [] id \in {2, 17, 24, 39} -> "u32"
      [] id = 11 -> "vbi"
      [] id \in {3, 8, 18, 21, 26, 28, 31} -> "str"
      [] id \in {9, 22} -> "bin"
      [] id = 38 -> "pair"
      [] OTHER -> "byte"          \* not a property of MQTT 5 (used only to build malformed packets)

\* properties that may appear more than once (2.2.2.2: User Property; 3.3.2.3.8: Subscription Identifier in PUBLISH)
Repeatable(ctx, id) == id = 38 \/ (ctx = "PUBLISH" /\ id = 11)

\* byte properties that are booleans in the packets' field lists
IsFlagProp(id) == id \in {23, 25, 37, 40, 41, 42}

PropsOf(ctx) ==
    CASE ctx = "CONNECT"     -> <<17, 33, 39, 34, 25, 23, 38, 21, 22>>                                     \* 3.1.2.11
      [] ctx = "WILL"        -> <<24, 1, 2, 3, 8, 9, 38>>                                                  \* 3.1.3.2
      [] ctx = "CONNACK"     -> <<17, 33, 36, 37, 39, 18, 34, 31, 38, 40, 41, 42, 19, 26, 28, 21, 22>>     \* 3.2.2.3
      [] ctx = "PUBLISH"     -> <<1, 2, 35, 8, 9, 38, 11, 3>>                                              \* 3.3.2.3
      [] ctx \in {"PUBACK", "PUBREC", "PUBREL", "PUBCOMP", "SUBACK", "UNSUBACK"} -> <<31, 38>>             \* 3.4.2.2 ...
      [] ctx = "SUBSCRIBE"   -> <<11, 38>>                                                                 \* 3.8.2.1
      [] ctx = "UNSUBSCRIBE" -> <<38>>                                                                     \* 3.10.2.1
      [] ctx = "DISCONNECT"  -> <<17, 31, 38, 28>>                                                         \* 3.14.2.2
      [] ctx = "AUTH"        -> <<21, 22, 31, 38>>                                                         \* 3.15.2.2

\* the field name a property is reported under (the crate's packet structs / the harness's neutral packets)
PropName(ctx, id) ==
    CASE id = 1 -> "payload_format" [] id = 2 -> "message_expiry_interval_seconds" [] id = 3 -> "content_type"
      [] id = 8 -> "response_topic" [] id = 9 -> "correlation_data"
      [] id = 11 -> IF ctx = "PUBLISH" THEN "subscription_identifiers" ELSE "subscription_identifier"
      [] id = 17 -> IF ctx = "CONNACK" THEN "session_expiry_interval" ELSE "session_expiry_interval_seconds"
      [] id = 18 -> "assigned_client_identifier" [] id = 19 -> "server_keep_alive"
      [] id = 21 -> "authentication_method" [] id = 22 -> "authentication_data"
      [] id = 23 -> "request_problem_information" [] id = 24 -> "will_delay_interval_seconds"
      [] id = 25 -> "request_response_information" [] id = 26 -> "response_information" [] id = 28 -> "server_reference"
      [] id = 31 -> "reason_string" [] id = 33 -> "receive_maximum" [] id = 34 -> "topic_alias_maximum" [] id = 35 -> "topic_alias"
      [] id = 36 -> "maximum_qos" [] id = 37 -> "retain_available" [] id = 38 -> "user_properties"
      [] id = 39 -> IF ctx = "CONNACK" THEN "maximum_packet_size" ELSE "maximum_packet_size_bytes"
      [] id = 40 -> "wildcard_subscriptions_available" [] id = 41 -> "subscription_identifiers_available" [] id = 42 -> "shared_subscriptions_available"

\* one property on the wire: identifier, then the value in the identifier's type.  pr == [id, v]
PropBytes(pr) ==
    B(pr.id) \o (CASE PropType(pr.id) = "byte" -> B(pr.v)
                   [] PropType(pr.id) = "u16" -> U16(pr.v)
                   [] PropType(pr.id) = "u32" -> U32(pr.v)
                   [] PropType(pr.id) = "vbi" -> Vbi(pr.v)
                   [] PropType(pr.id) \in {"str", "bin"} -> Bin(pr.v)
                   [] OTHER -> Bin(pr.v.k) \o Bin(pr.v.v))
PropsBytes(props) == Cat([i \in 1..Len(props) |-> PropBytes(props[i])])
\* 2.2.2.1 Property Length (a Variable Byte Integer) followed by the properties
PropSection(props) == LET body == PropsBytes(props) IN Vbi(LLen(body)) \o body

----------------------------------------------------------------------------------------------------
\* 2.4 Reason Code: which packet admits which value

ReasonCodes(type, v5) ==
    IF v5 THEN
        CASE type = "CONNACK" -> {0, 128, 129, 130, 131, 132, 133, 134, 135, 136, 137, 138, 140, 144, 149, 151, 153, 154, 155, 156, 157, 159}
          [] type \in {"PUBACK", "PUBREC"} -> {0, 16, 128, 131, 135, 144, 145, 151, 153}
          [] type \in {"PUBREL", "PUBCOMP"} -> {0, 146}
          [] type = "SUBACK" -> {0, 1, 2, 128, 131, 135, 143, 145, 151, 158, 161, 162}
          [] type = "UNSUBACK" -> {0, 17, 128, 131, 135, 143, 145}
          \* DISCONNECT sent by a server: every DISCONNECT reason code except 4 (client only)
          [] type = "DISCONNECT" -> {0, 128, 129, 130, 131, 135, 137, 139, 141, 142, 143, 144, 147, 148, 149, 150, 151, 152, 153, 154, 155, 156, 157, 158, 159, 160, 161, 162}
          [] type = "AUTH" -> {0, 24, 25}
          [] OTHER -> {}
    ELSE CASE type = "CONNACK" -> {0, 1, 2, 3, 4, 5}          \* 3.1.1 section 3.2.2.3 Connect Return code
           [] type = "SUBACK" -> {0, 1, 2, 128}               \* 3.1.1 section 3.9.3
           [] OTHER -> {}

\* A client API that reports 3.1.1 CONNACK return codes through the MQTT 5 reason-code vocabulary shows each
\* return code (3.1.1 table 3.1) as the MQTT 5 reason code of the same meaning (5.0 section 3.2.2.2)
ReturnCodeMeaning(rc) == CASE rc = 0 -> 0 [] rc = 1 -> 132 [] rc = 2 -> 133 [] rc = 3 -> 136 [] rc = 4 -> 134 [] rc = 5 -> 135 [] OTHER -> 255

----------------------------------------------------------------------------------------------------
\* packets.  p == [type, v5, ...fields...]; the fields each layout reads are listed with it.

TypeNo(t) == CASE t = "CONNECT" -> 1 [] t = "CONNACK" -> 2 [] t = "PUBLISH" -> 3 [] t = "PUBACK" -> 4 [] t = "PUBREC" -> 5
               [] t = "PUBREL" -> 6 [] t = "PUBCOMP" -> 7 [] t = "SUBSCRIBE" -> 8 [] t = "SUBACK" -> 9 [] t = "UNSUBSCRIBE" -> 10
               [] t = "UNSUBACK" -> 11 [] t = "PINGREQ" -> 12 [] t = "PINGRESP" -> 13 [] t = "DISCONNECT" -> 14 [] t = "AUTH" -> 15

B2N(b) == IF b THEN 1 ELSE 0

\* 2.1.3 Flags
FixedFlags(p) ==
    CASE p.type = "PUBLISH" -> 8 * B2N(p.dup) + 2 * p.qos + B2N(p.retain)
      [] p.type \in {"PUBREL", "SUBSCRIBE", "UNSUBSCRIBE"} -> 2
      [] OTHER -> 0

Props(p) == IF p.v5 THEN PropSection(p.props) ELSE <<>>

\* 3.1 CONNECT.  fields: clean, keepalive, cid (S), hasWill, will [qos, retain, topic, payload, props], hasUser, user, hasPass, pass, props
ProtocolName == U16(4) \o Lit(<<77, 81, 84, 84>>)          \* "MQTT"
ConnectLayoutBody(p) ==
    LET flags == 128 * B2N(p.hasUser) + 64 * B2N(p.hasPass)
                 + (IF p.hasWill THEN 32 * B2N(p.will.retain) + 8 * p.will.qos + 4 ELSE 0) + 2 * B2N(p.clean)
    IN ProtocolName \o B(IF p.v5 THEN 5 ELSE 4) \o B(flags) \o U16(p.keepalive) \o Props(p)
       \o Bin(p.cid)
       \o (IF p.hasWill THEN (IF p.v5 THEN PropSection(p.will.props) ELSE <<>>) \o Bin(p.will.topic) \o Bin(p.will.payload) ELSE <<>>)
       \o (IF p.hasUser THEN Bin(p.user) ELSE <<>>)
       \o (IF p.hasPass THEN Bin(p.pass) ELSE <<>>)

\* 3.4 - 3.7 PUBACK, PUBREC, PUBREL, PUBCOMP.  fields: pid, rc, props, form ("short": identifier only; "rc": + reason
\* code; "full": + property length).  3.4.2.1: the reason code may be omitted when it is 0 and there are no properties.
AckBody(p) ==
    U16(p.pid) \o (IF ~p.v5 \/ p.form = "short" THEN <<>>
                   ELSE IF p.form = "rc" THEN B(p.rc)
                   ELSE B(p.rc) \o PropSection(p.props))

\* 3.8.3.1 Subscription Options
SubOptions(s, v5) == IF v5 THEN s.qos + 4 * B2N(s.nl) + 8 * B2N(s.rap) + 16 * s.rh ELSE s.qos

Body(p) ==
    CASE p.type = "CONNECT" -> ConnectLayoutBody(p)
      \* 3.2 CONNACK.  fields: sp, rc, props
      [] p.type = "CONNACK" -> B(B2N(p.sp)) \o B(p.rc) \o Props(p)
      \* 3.3 PUBLISH.  fields: dup, qos, retain, topic (S), pid, props, payload (S)
      [] p.type = "PUBLISH" -> Bin(p.topic) \o (IF p.qos > 0 THEN U16(p.pid) ELSE <<>>) \o Props(p) \o Raw(p.payload)
      [] p.type \in {"PUBACK", "PUBREC", "PUBREL", "PUBCOMP"} -> AckBody(p)
      \* 3.8 SUBSCRIBE.  fields: pid, props, subs: sequence of [filter, qos, nl, rap, rh]
      [] p.type = "SUBSCRIBE" -> U16(p.pid) \o Props(p) \o Cat([i \in 1..Len(p.subs) |-> Bin(p.subs[i].filter) \o B(SubOptions(p.subs[i], p.v5))])
      \* 3.9 SUBACK / 3.11 UNSUBACK.  fields: pid, props, codes
      [] p.type = "SUBACK" -> U16(p.pid) \o Props(p) \o Lit(p.codes)
      [] p.type = "UNSUBACK" -> U16(p.pid) \o (IF p.v5 THEN Props(p) \o Lit(p.codes) ELSE <<>>)
      \* 3.10 UNSUBSCRIBE.  fields: pid, props, filters
      [] p.type = "UNSUBSCRIBE" -> U16(p.pid) \o Props(p) \o Cat([i \in 1..Len(p.filters) |-> Bin(p.filters[i])])
      [] p.type \in {"PINGREQ", "PINGRESP"} -> <<>>
      \* 3.14 DISCONNECT.  fields: rc, props, form ("short": remaining length 0, "rc", "full").  3.1.1: no body.
      [] p.type = "DISCONNECT" -> IF ~p.v5 \/ p.form = "short" THEN <<>> ELSE IF p.form = "rc" THEN B(p.rc) ELSE B(p.rc) \o PropSection(p.props)
      \* 3.15 AUTH.  fields: rc, props
      [] p.type = "AUTH" -> B(p.rc) \o PropSection(p.props)

\* 2.1 fixed header: type and flags, 2.1.4 Remaining Length
Layout(p) == LET body == Body(p) IN B(16 * TypeNo(p.type) + FixedFlags(p)) \o Vbi(LLen(body)) \o body
=============================================================================
