------------------------------- MODULE MonC01 -------------------------------
(* C01 - every accepted operation resolves exactly once, with its own acknowledgement. *)
EXTENDS MonBase

Init0 == [run |-> 0, skip |-> FALSE, errs |-> <<>>,
          ops |-> EmptyMap,      \* op -> [kind, qos, entries, res, pid, sent]
          acks |-> <<>>,         \* acknowledgements received on this connection, not yet used: <<type, pid>>
          owner |-> EmptyMap,    \* pid -> QoS 2 publish it was transmitted with (session scoped), to attribute PUBRELs
          afterReset |-> FALSE]

NewOp(e) == [kind |-> e.kind, qos |-> e.qos, entries |-> e.entries, res |-> FALSE, pid |-> 0, sent |-> FALSE]

RemoveFirst(s, x) ==
    LET idx == {i \in 1..Len(s) : s[i] = x}
    IN IF idx = {} THEN s
       ELSE LET i == CHOOSE j \in idx : \A k \in idx : j <= k
            IN SubSeq(s, 1, i - 1) \o SubSeq(s, i + 1, Len(s))

InSeq(s, x) == \E i \in 1..Len(s) : s[i] = x

ForgetConnection(m) ==
    [m EXCEPT !.acks = <<>>, !.ops = MapAll(@, LAMBDA o : [o EXCEPT !.pid = 0, !.sent = FALSE])]

OnComplete(m, e) ==
    IF ~Has(m.ops, e.op) THEN Breach(m, e, "complete-unknown")
    ELSE LET o == m.ops[e.op]
             done == [m EXCEPT !.ops[e.op].res = TRUE]
         IN IF o.res THEN Breach(m, e, "complete-twice")
            ELSE IF e.ok = 0 THEN done
            ELSE IF e.during = "reset" THEN Breach(m, e, "reset-not-error")
            ELSE IF o.kind = "pub" /\ o.qos = 0 THEN
                     IF e.ack # "" THEN Breach(m, e, "ack-type")
                     ELSE IF ~o.sent THEN Breach(m, e, "qos0-before-flush")
                     ELSE done
            ELSE LET want == CASE o.kind = "pub" /\ o.qos = 1 -> {"PUBACK"}
                               [] o.kind = "pub" /\ o.qos = 2 -> IF e.ack = "PUBREC" /\ e.rc >= 128 THEN {"PUBREC"} ELSE {"PUBCOMP"}
                               [] o.kind = "sub"   -> {"SUBACK"}
                               [] OTHER            -> {"UNSUBACK"}
                 IN IF e.ack \notin want THEN Breach(m, e, "ack-type")
                    ELSE IF o.pid = 0 \/ e.pid # o.pid THEN Breach(m, e, "ack-id")
                    ELSE IF ~InSeq(m.acks, <<e.ack, e.pid>>) THEN Breach(m, e, "ack-not-received")
                    ELSE IF o.kind \in {"sub", "unsub"} /\ e.codes # o.entries THEN Breach(m, e, "code-count")
                    ELSE [done EXCEPT !.acks = RemoveFirst(@, <<e.ack, e.pid>>)]

Apply(m, e) ==
    IF e.ev = "Cfg" THEN [Init0 EXCEPT !.run = e.run, !.errs = m.errs]
    ELSE IF m.skip THEN m
    ELSE CASE e.ev = "Submit" -> [m EXCEPT !.ops = Put(@, e.op, NewOp(e)), !.afterReset = FALSE]
           [] e.ev = "Tx" /\ e.partial = 0 /\ e.op # 0 /\ e.type \in {"PUBLISH", "SUBSCRIBE", "UNSUBSCRIBE"} ->
                  IF ~Has(m.ops, e.op) THEN m
                  ELSE \* acknowledgements that arrived before this transmission do not count for it
                       [m EXCEPT !.ops[e.op].pid = e.pid, !.ops[e.op].sent = TRUE,
                                 !.owner = IF e.type = "PUBLISH" /\ e.qos = 2 THEN Put(@, e.pid, e.op) ELSE @,
                                 !.acks = SelectSeq(@, LAMBDA a : a[2] # e.pid \/ e.pid = 0)]
           [] e.ev = "Tx" /\ e.partial = 0 /\ e.type = "PUBREL" /\ Has(m.owner, e.pid) ->
                  \* the PUBREL of a QoS 2 publish is that operation's packet on a resumed connection
                  [m EXCEPT !.ops[m.owner[e.pid]].pid = e.pid, !.ops[m.owner[e.pid]].sent = TRUE]
           [] e.ev = "Rx" /\ e.type = "CONNACK" /\ e.result = "ok" /\ e.sp = 0 -> [m EXCEPT !.owner = EmptyMap]
           [] e.ev = "Rx" /\ IsAckType(e.type) -> [m EXCEPT !.acks = Append(@, <<e.type, e.pid>>)]
           [] e.ev \in {"Open", "Close"} -> [ForgetConnection(m) EXCEPT !.afterReset = FALSE]
           [] e.ev = "Reset" -> [ForgetConnection(m) EXCEPT !.afterReset = TRUE, !.owner = EmptyMap]
           [] e.ev = "Complete" -> OnComplete(m, e)
           [] e.ev = "Snapshot" /\ m.afterReset ->
                  IF \E k \in DOMAIN m.ops : ~m.ops[k].res THEN Breach(m, e, "unresolved-at-end")
                  ELSE IF e.ops + e.userQ + e.resubQ + e.hpQ + e.cur + e.alloc + e.pendPub + e.pendNon + e.pwcOps + e.tmo + e.qos2In + e.pwc # 0
                       THEN Breach(m, e, "tracked-after-reset")
                  ELSE m
           [] OTHER -> m
=============================================================================
