------------------------------ MODULE BytePump ------------------------------
(***************************************************************************************************
 Implementation-shaped specification of what both drivers do with bytes and with operation
 results (gneiss-mqtt/src/client/asynchronous/tokio/mod.rs and
 client/synchronous/threaded/mod.rs: process_connected, the submit_*_operation macros;
 client/synchronous/threaded/ws_stream.rs: WebsocketStreamWrapper; client/synchronous/mod.rs:
 the mutex + condvar result slot), composed with a transport that accepts any number of bytes,
 stalls, or fails, and a peer that sends bytes / WebSocket messages in any fragmentation.

 Bytes are identities 1, 2, 3, ...: "the bytes the engine produced" is the sequence 1..n, so
 faithfulness is literally "what reached the transport is 1..k in order".

   write path   outbound buffer + cumulative cursor; Service appends a batch only when no write completion is
                pending (the engine's own rule); Write(n) for 1 <= n <= what is left, would-block, error; when the
                cursor reaches the end: clear, flush, write completion.  With Adapter = "ws" a write hands the whole
                rest of the buffer to tungstenite as one binary message, which may queue the frame and still report
                would-block.
   read path    plain: any chunk of the peer's stream, in order.  "ws": the message cursor and the multi-message
                read loop of WebsocketStreamWrapper::read, as written.
   results      every submit sends a command carrying its result handler through an unbounded channel; the loop
                takes commands until it exits; tokio: a oneshot whose dropped sender resolves the future with an
                error; threaded: a slot that resolves only when something is written into it.

 Defects (found in the pinned tree; a "fix:" commit repairs each one that is not listed as known):
   "ws-cursor-from-start"    MessageCursor::read copies from the start of the message instead of from its index
   "ws-read-overwrites"      the read loop hands the whole buffer to every message instead of the unread rest
   "ws-error-drops-read-bytes" (introduced by a seeded change, not in the pinned tree) a read that has copied payload bytes and then meets the
                             peer's close returns the error at once: the bytes never reach the engine
   "ws-blocked-after-queue"  tungstenite queued the frame and the flush would block: the driver sees would-block and
                             sends the same bytes again
   "slot-never-resolved"     threaded client: a command dropped unprocessed (loop gone) leaves its result slot empty
 ***************************************************************************************************)
EXTENDS Naturals, Integers, Sequences, FiniteSets, TLC, Json

CONSTANTS Adapter,       \* "plain" | "ws"
          Driver,        \* "tokio" | "threaded"
          Defects,
          MaxBatches,    \* service calls that produce output
          MaxBatch,      \* bytes per batch (1..MaxBatch)
          MaxIn,         \* bytes the peer sends
          BufSize,       \* size of the driver's read buffer
          MaxOps         \* operations submitted

VARIABLES produced,      \* number of bytes the engine has produced (they are 1..produced)
          outbuf, cursor, pwc,
          wire,          \* bytes the transport has been given, in order
          queued,        \* ws: frames tungstenite holds that were reported as blocked (sequence of byte sequences)
          up,            \* connection alive
          peer,          \* ws: messages still to be delivered (sequences of byte ids); plain: <<the rest of the stream>>
          sent,          \* number of bytes the peer has sent (they are 1..sent)
          msg, idx,      \* ws adapter: current message and index into it (msg = <<>>: none)
          fed,           \* bytes handed to the engine, in order
          loop,          \* "run" | "exited"
          chan,          \* commands not yet taken: operation ids
          res,           \* operation id -> number of results delivered
          nops,
          sizes,         \* sizes of the chunks / messages the peer has sent (observation, for export)
          pclose         \* the peer's close: "no" | "sent" (it follows everything the peer has sent, ws: as the marker <<0>> in `peer`) | "seen" (a read reported it)

vars == <<produced, outbuf, cursor, pwc, wire, queued, up, peer, sent, msg, idx, fed, loop, chan, res, nops, sizes, pclose>>

Ids(a, b) == [i \in 1..(b - a + 1) |-> a + i - 1]
Min2(a, b) == IF a <= b THEN a ELSE b

Init == /\ produced = 0 /\ outbuf = <<>> /\ cursor = 0 /\ pwc = FALSE /\ wire = <<>> /\ queued = <<>> /\ up = TRUE
        /\ peer = <<>> /\ sent = 0 /\ msg = <<>> /\ idx = 0 /\ fed = <<>>
        /\ loop = "run" /\ chan = <<>> /\ res = <<>> /\ nops = 0 /\ sizes = <<>> /\ pclose = "no"

----------------------------------------------------------------------------------------------------
\* write path

Service ==
    /\ loop = "run" /\ up /\ ~pwc /\ produced < MaxBatches * MaxBatch
    /\ \E k \in 1..MaxBatch :
          /\ outbuf' = outbuf \o Ids(produced + 1, produced + k)
          /\ produced' = produced + k
    /\ pwc' = TRUE
    /\ UNCHANGED <<cursor, wire, queued, up, peer, sent, msg, idx, fed, loop, chan, res, nops, sizes, pclose>>

Advance(n) ==      \* bytes_written = n
    IF cursor + n = Len(outbuf)
    THEN /\ outbuf' = <<>> /\ cursor' = 0 /\ pwc' = FALSE           \* clear, flush, handle_write_completion
    ELSE /\ cursor' = cursor + n /\ UNCHANGED <<outbuf, pwc, sizes, pclose>>

WritePlain ==
    /\ Adapter = "plain" /\ loop = "run" /\ up /\ cursor < Len(outbuf)
    /\ \E n \in 1..(Len(outbuf) - cursor) :
          /\ wire' = wire \o SubSeq(outbuf, cursor + 1, cursor + n)
          /\ Advance(n)
    /\ UNCHANGED <<produced, queued, up, peer, sent, msg, idx, fed, loop, chan, res, nops, sizes, pclose>>

\* WebsocketStreamWrapper::write: one binary message with everything that is left
WriteWs ==
    /\ Adapter = "ws" /\ loop = "run" /\ up /\ cursor < Len(outbuf)
    /\ LET rest == SubSeq(outbuf, cursor + 1, Len(outbuf)) IN
       \/ /\ wire' = wire \o rest /\ Advance(Len(rest)) /\ UNCHANGED queued                       \* sent
       \/ /\ "ws-blocked-after-queue" \in Defects                                                  \* queued, reported as would-block
          /\ wire' = wire \o rest /\ UNCHANGED <<outbuf, cursor, pwc, queued, sizes, pclose>>
       \/ /\ "ws-blocked-after-queue" \notin Defects                                               \* repaired: queued frame counts as written
          /\ wire' = wire \o rest /\ Advance(Len(rest)) /\ UNCHANGED queued
    /\ UNCHANGED <<produced, up, peer, sent, msg, idx, fed, loop, chan, res, nops, sizes, pclose>>

WriteFails ==
    /\ loop = "run" /\ up /\ cursor < Len(outbuf)
    /\ up' = FALSE
    /\ UNCHANGED <<produced, outbuf, cursor, pwc, wire, queued, peer, sent, msg, idx, fed, loop, chan, res, nops, sizes, pclose>>

----------------------------------------------------------------------------------------------------
\* read path

PeerSends ==
    /\ up /\ sent < MaxIn /\ pclose = "no"
    /\ \E k \in 1..(MaxIn - sent) :
          /\ peer' = IF Adapter = "ws" THEN Append(peer, Ids(sent + 1, sent + k))
                     ELSE <<(IF peer = <<>> THEN <<>> ELSE peer[1]) \o Ids(sent + 1, sent + k)>>
          /\ sent' = sent + k
          /\ sizes' = Append(sizes, k)
    /\ UNCHANGED <<produced, outbuf, cursor, pwc, wire, queued, up, msg, idx, fed, loop, chan, res, nops, pclose>>

\* the peer closes the connection after what it has sent (ws: a Close frame behind the queued messages)
CloseMark == <<0>>
PeerCloses ==
    /\ Adapter = "ws" /\ up /\ pclose = "no"
    /\ peer' = Append(peer, CloseMark)
    /\ pclose' = "sent"
    /\ UNCHANGED <<produced, outbuf, cursor, pwc, wire, queued, up, sent, msg, idx, fed, loop, chan, res, nops, sizes>>

ReadPlain ==
    /\ Adapter = "plain" /\ loop = "run" /\ up /\ peer # <<>> /\ peer[1] # <<>>
    /\ \E n \in 1..Min2(BufSize, Len(peer[1])) :
          /\ fed' = fed \o SubSeq(peer[1], 1, n)
          /\ peer' = <<SubSeq(peer[1], n + 1, Len(peer[1]))>>
    /\ UNCHANGED <<produced, outbuf, cursor, pwc, wire, queued, up, sent, msg, idx, loop, chan, res, nops, sizes, pclose>>

\* WebsocketStreamWrapper::read(buf) with |buf| = BufSize.  R == [buf, n (bytes_read), msg, idx, peer]
RECURSIVE WsReadLoop(_)
WsReadLoop(R) ==
    IF R.n >= BufSize THEN R
    ELSE IF R.msg = <<>> /\ R.peer # <<>> /\ Head(R.peer) = CloseMark THEN
         \* tungstenite reports the close (an error that is not would-block).  Bytes already copied in this call are returned
         \* first and the error is kept for the next call (final_error); the defect returns the error at once and drops them
         IF "ws-error-drops-read-bytes" \in Defects THEN [R EXCEPT !.n = 0, !.err = TRUE, !.peer = Tail(R.peer)]
         ELSE IF R.n > 0 THEN R
         ELSE [R EXCEPT !.err = TRUE, !.peer = Tail(R.peer)]
    ELSE LET R1 == IF R.msg = <<>>
                   THEN (IF R.peer = <<>> THEN R ELSE [R EXCEPT !.msg = Head(R.peer), !.idx = 0, !.peer = Tail(R.peer)])
                   ELSE R
         IN IF R1.msg = <<>> THEN R1                                    \* would block: return what has been read
            ELSE LET destLen == IF "ws-read-overwrites" \in Defects THEN BufSize ELSE BufSize - R1.n
                     destAt == IF "ws-read-overwrites" \in Defects THEN 0 ELSE R1.n
                     amount == Min2(Len(R1.msg) - R1.idx, destLen)
                     src == IF "ws-cursor-from-start" \in Defects THEN SubSeq(R1.msg, 1, amount) ELSE SubSeq(R1.msg, R1.idx + 1, R1.idx + amount)
                     buf2 == [i \in 1..BufSize |-> IF i > destAt /\ i <= destAt + amount THEN src[i - destAt] ELSE R1.buf[i]]
                     R2 == [R1 EXCEPT !.buf = buf2, !.n = @ + amount, !.idx = @ + amount]
                 IN IF R2.n < BufSize THEN WsReadLoop([R2 EXCEPT !.msg = <<>>, !.idx = 0]) ELSE R2

ReadWs ==
    /\ Adapter = "ws" /\ loop = "run" /\ up /\ (msg # <<>> \/ peer # <<>>)
    /\ LET R == WsReadLoop([buf |-> [i \in 1..BufSize |-> 0], n |-> 0, msg |-> msg, idx |-> idx, peer |-> peer, err |-> FALSE])
       IN /\ R.n > 0 \/ R.err
          /\ fed' = fed \o SubSeq(R.buf, 1, R.n)
          /\ msg' = R.msg /\ idx' = R.idx /\ peer' = R.peer
          /\ up' = IF R.err THEN FALSE ELSE up                       \* the driver ends the connection on a read error
          /\ pclose' = IF R.err THEN "seen" ELSE pclose
    /\ UNCHANGED <<produced, outbuf, cursor, pwc, wire, queued, sent, loop, chan, res, nops, sizes>>

----------------------------------------------------------------------------------------------------
\* operations and their results

Submit ==
    /\ nops < MaxOps
    /\ nops' = nops + 1
    /\ IF loop = "run"
       THEN /\ chan' = Append(chan, nops + 1)
            /\ res' = [o \in 1..(nops + 1) |-> IF o <= nops THEN res[o] ELSE 0]
       ELSE /\ chan' = chan                  \* the send fails: the submit call itself resolves the operation with an error
            /\ res' = [o \in 1..(nops + 1) |-> IF o <= nops THEN res[o] ELSE 1]
    /\ UNCHANGED <<produced, outbuf, cursor, pwc, wire, queued, up, peer, sent, msg, idx, fed, loop, sizes, pclose>>

\* the loop takes a command: the engine accepts the operation and will complete it (here: at once) or fail it
TakeCommand ==
    /\ loop = "run" /\ chan # <<>>
    /\ res' = [res EXCEPT ![Head(chan)] = @ + 1]
    /\ chan' = Tail(chan)
    /\ UNCHANGED <<produced, outbuf, cursor, pwc, wire, queued, up, peer, sent, msg, idx, fed, loop, nops, sizes, pclose>>

\* close: the loop exits; commands still in the channel are dropped with their handlers
LoopExits ==
    /\ loop = "run"
    /\ loop' = "exited"
    /\ res' = IF Driver = "threaded" /\ "slot-never-resolved" \in Defects THEN res
              ELSE [o \in DOMAIN res |-> IF \E i \in 1..Len(chan) : chan[i] = o THEN res[o] + 1 ELSE res[o]]    \* dropped sender / guard resolves with an error
    /\ chan' = <<>>
    /\ UNCHANGED <<produced, outbuf, cursor, pwc, wire, queued, up, peer, sent, msg, idx, fed, nops, sizes, pclose>>

----------------------------------------------------------------------------------------------------
Next == Service \/ WritePlain \/ WriteWs \/ WriteFails \/ PeerSends \/ PeerCloses \/ ReadPlain \/ ReadWs \/ Submit \/ TakeCommand \/ LoopExits
Spec == Init /\ [][Next]_vars /\ WF_vars(TakeCommand)

\* C13: the transport is handed exactly the bytes the engine produced, in order, without loss or duplication
WriteFaithful == wire = Ids(1, Len(wire)) /\ Len(wire) <= produced
\* C13: received bytes are fed to the engine in order (for WebSockets: the concatenation of the binary payloads)
ReadFaithful == fed = Ids(1, Len(fed)) /\ Len(fed) <= sent
\* C13: ... and without loss: when a read reports the peer's close, everything the peer sent before it has been fed
ReadComplete == pclose = "seen" => fed = Ids(1, sent)
\* C13: no operation yields two results ...
AtMostOneResult == \A o \in DOMAIN res : res[o] <= 1
\* ... and once the loop is gone every operation has one
\* script export: the fragmentation the peer used, once everything it had to say has been read
ExportReads == (Adapter = "ws" /\ sent = MaxIn /\ Len(fed) = MaxIn /\ TLCGet("level") > 0) => PrintT(<<"READS", ToJson([sizes |-> sizes, buf |-> BufSize])>>)
AllResolvedAfterExit == (loop = "exited" /\ chan = <<>>) => \A o \in DOMAIN res : res[o] = 1
=============================================================================
