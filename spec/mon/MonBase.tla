------------------------------- MODULE MonBase -------------------------------
(* Shared vocabulary of the property monitors.

   A monitor is a pure operator  Apply(m, e)  that advances a small abstract state m over one
   observable event e (see Events.tla for the record shapes) and records a breach, with the name
   of the rule that fired, when the property it encodes is violated.  The same operators are
   (a) composed with the implementation-shaped specification Engine.tla inside TLC and
   (b) folded by TraceCheck.tla over ndjson traces recorded from the real code.

   Rules are written from the property text in properties.jsonl, not from the code. *)
EXTENDS Naturals, Integers, Sequences, FiniteSets, TLC

Breach(m, e, rule) ==
    [m EXCEPT !.errs = Append(@, [run |-> e.run, seq |-> e.seq, rule |-> rule]), !.skip = TRUE]

\* finite maps as functions; EmptyMap has the empty domain
EmptyMap == [x \in {} |-> 0]
Has(f, k) == k \in DOMAIN f
Put(f, k, v) == [x \in (DOMAIN f) \cup {k} |-> IF x = k THEN v ELSE f[x]]
Drop(f, K) == [x \in (DOMAIN f) \ K |-> f[x]]
MapAll(f, Op(_)) == [x \in DOMAIN f |-> Op(f[x])]

Max(a, b) == IF a >= b THEN a ELSE b
Min(a, b) == IF a <= b THEN a ELSE b

\* events that are consequences of the preceding entry-point event (deferred checks of a step run
\* at the first event that is not one of these)
\* ("Eid" is harness bookkeeping: the engine-internal id of the operation just submitted)
Follower(e) == e.ev \in {"Complete", "Tx", "Surface", "Settings", "Eid"}

IsAckType(t) == t \in {"PUBACK", "PUBREC", "PUBCOMP", "SUBACK", "UNSUBACK"}

\* offline-queue policy predicate, from the documentation of OfflineQueuePolicy
PolicyKeeps(policy, kind, qos) ==
    CASE policy = "All"  -> TRUE
      [] policy = "Ack"  -> (kind \in {"sub", "unsub"}) \/ (kind = "pub" /\ qos >= 1)
      [] policy = "Q1"   -> (kind = "pub" /\ qos >= 1)
      [] OTHER           -> FALSE

NeedsAck(kind, qos) == kind \in {"sub", "unsub"} \/ (kind = "pub" /\ qos >= 1)
=============================================================================
