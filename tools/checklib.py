"""Shared machinery of ./check: builds the harness from /repo's working tree, runs TLC (model
checking of the implementation-shaped specifications and trace validation of recorded
executions), matches breaches against known_findings.json, writes evidence."""
import collections, json, os, re, shutil, subprocess, sys, time

ROOT = os.path.dirname(os.path.dirname(os.path.abspath(__file__)))
HARNESS = os.path.join(ROOT, "harness")
SPEC = os.path.join(ROOT, "spec")
WORK = os.path.join(ROOT, "work")
BIN = os.path.join(HARNESS, "target", "release")
TLC_WORKERS = int(os.environ.get("VERIF_TLC_WORKERS", "12"))

ENGINE_PROPS = ["C01", "C02", "C04", "C05", "C06", "C07", "C08", "C09", "C10", "C11", "C14", "C15", "C16", "C17", "C18"]


class ToolError(Exception):
    pass


def sh(cmd, cwd=None, env=None, timeout=None, out=None):
    e = dict(os.environ)
    e.update({"CARGO_NET_OFFLINE": "true"})
    if env:
        e.update(env)
    t0 = time.time()
    if out:
        with open(out, "w") as f:
            p = subprocess.run(cmd, cwd=cwd, env=e, stdout=f, stderr=subprocess.STDOUT, timeout=timeout)
        return p.returncode, "", time.time() - t0
    p = subprocess.run(cmd, cwd=cwd, env=e, stdout=subprocess.PIPE, stderr=subprocess.STDOUT, timeout=timeout, text=True)
    return p.returncode, p.stdout, time.time() - t0


def build_harness(log):
    """Rebuilds the harness (and with it gneiss-mqtt with the verif feature) from /repo's current tree."""
    rc, out, dt = sh(["cargo", "build", "--release", "--offline", "--quiet"], cwd=HARNESS, timeout=3000)
    log["harness_build_s"] = round(dt, 1)
    if rc != 0:
        sys.stdout.write(out[-6000:])
        raise ToolError("harness does not build against /repo's working tree")


# ------------------------------------------------------------------------------------------------
# TLC

def run_tlc(workdir, module_dir, module, cfg_text, env=None, workers=1, timeout=1800, extra=None, java_opts="-Xss1g", soft=False):
    """soft: running out of time is not an error - the states explored so far are reported (res["timed_out"])."""
    os.makedirs(workdir, exist_ok=True)
    cfg = os.path.join(workdir, module + ".cfg")
    with open(cfg, "w") as f:
        f.write(cfg_text)
    out = os.path.join(workdir, module + ".out")
    jtmp = os.path.join(workdir, "jtmp")                                   # TLC's java.io.tmpdir scratch (otherwise one /tmp/tlc-* per run)
    os.makedirs(jtmp, exist_ok=True)
    e = {"JAVA_TOOL_OPTIONS": java_opts + " -Djava.io.tmpdir=" + jtmp + " -DTLA-Library=" + os.path.join(SPEC, "mon") + ":" + SPEC}
    if env:
        e.update(env)
    cmd = ["timeout", str(timeout), "tlc", "-workers", str(workers), "-noGenerateSpecTE", "-metadir", os.path.join(workdir, "meta"), "-cleanup",
           "-config", cfg] + (extra or []) + [module + ".tla"]
    try:
        rc, _, dt = sh(cmd, cwd=module_dir, env=e, out=out, timeout=timeout + 60)
    except subprocess.TimeoutExpired:
        raise ToolError("TLC did not stop on " + module)
    text = open(out, errors="replace").read()
    shutil.rmtree(jtmp, ignore_errors=True)
    shutil.rmtree(os.path.join(workdir, "meta"), ignore_errors=True)      # TLC's state files (gigabytes after a run stopped by its budget)
    res = {"rc": rc, "wall_s": round(dt, 1), "out": out, "text": text}
    m = re.search(r"(\d+) states generated, (\d+) distinct states found, (\d+) states left on queue", text)
    if m:
        res["generated"], res["distinct"], res["queue"] = int(m.group(1)), int(m.group(2)), int(m.group(3))
    m = re.search(r"The depth of the complete state graph search is (\d+)", text)
    if m:
        res["depth"] = int(m.group(1))
    res["ok"] = ("Model checking completed. No error has been found." in text)
    res["violated"] = re.findall(r"Error: Invariant (\S+) is violated", text) + re.findall(r"Error: Temporal properties were violated", text)
    if rc == 124:
        if not soft:
            raise ToolError("TLC timed out on " + module)
        res["timed_out"] = True
        m = re.findall(r"Progress\(\d+\) at [^:]+:\d+:\d+: ([\d,]+) states generated.*?, ([\d,]+) distinct states found", text)
        if m:
            res["generated"], res["distinct"] = int(m[-1][0].replace(",", "")), int(m[-1][1].replace(",", ""))
    return res


def trace_check(trace, which, workdir):
    """Folds the monitors named in `which` over an ndjson trace with TLC; returns {monitor: [breach...]}."""
    cfg = "SPECIFICATION Spec\nCONSTANT Which = {%s}\nINVARIANT Verdict\nPOSTCONDITION Consumed\nCHECK_DEADLOCK FALSE\n" % ",".join('"%s"' % w for w in which)
    res = run_tlc(workdir, os.path.join(SPEC, "mon"), "TraceCheck", cfg, env={"TRACE": trace}, workers=1, timeout=3000, java_opts="-Xss1g -Xmx6g")
    m = re.search(r'<<"VERDICT", "(.*)">>', res["text"])
    if not m or not res["ok"]:
        sys.stdout.write(res["text"][-4000:])
        raise ToolError("trace validation did not complete")
    verdict = json.loads(m.group(1).encode().decode("unicode_escape"))
    return verdict, res


# ------------------------------------------------------------------------------------------------
# traces

def load_trace_index(trace):
    """run -> {seq -> event}, run -> src"""
    runs = collections.defaultdict(dict)
    src = {}
    with open(trace) as f:
        for line in f:
            e = json.loads(line)
            runs[e["run"]][e["seq"]] = e
            if e["ev"] == "Cfg":
                src[e["run"]] = e.get("src", "")
    return runs, src


def engine_run(args, workdir, name):
    os.makedirs(workdir, exist_ok=True)
    trace = os.path.join(workdir, name + ".ndjson")
    scripts = os.path.join(workdir, name + ".scripts")
    rc, out, dt = sh([os.path.join(BIN, "engine_run")] + args + ["--out", trace, "--scripts-out", scripts], cwd=workdir, timeout=3000)
    if rc != 0:
        sys.stdout.write(out[-3000:])
        raise ToolError("engine_run failed")
    stats = json.loads(out.strip().splitlines()[-1])
    stats["wall_s"] = round(dt, 1)
    return trace, scripts, stats


# ------------------------------------------------------------------------------------------------
# known findings

def load_known():
    path = os.path.join(ROOT, "known_findings.json")
    if not os.path.exists(path):
        return []
    return json.load(open(path))["findings"]


def match_known(known, pid, rule, event, src):
    """A breach is known only if a `known` entry names this property, this rule and a signature
    that the breaching event (or its run's source) satisfies.  `fixed` entries suppress nothing."""
    for k in known:
        if k.get("status") != "known" or k["property"] != pid or k["rule"] != rule:
            continue
        sig = k.get("match", {})
        ok = True
        for key, val in sig.items():
            if key == "src_prefix":
                ok = ok and src.startswith(val)
            else:
                ok = ok and event is not None and event.get(key) == val
        if ok:
            return k
    return None


# ------------------------------------------------------------------------------------------------
# evidence

def write_evidence(pid, tier, seed, coverage, assumptions, wall, violations, extra=None):
    os.makedirs(os.path.join(ROOT, "evidence"), exist_ok=True)
    ev = {"property_id": pid, "tier": tier, "seed": seed, "level": "model_checking", "coverage": coverage,
          "assumptions": assumptions, "wall_s": round(wall, 1), "violations": violations}
    if extra:
        ev.update(extra)
    with open(os.path.join(ROOT, "evidence", pid + ".json"), "w") as f:
        json.dump(ev, f, indent=1)
        f.write("\n")


def script_of_run(scripts_path, run):
    with open(scripts_path) as f:
        for i, line in enumerate(f, 1):
            if i == run:
                return json.loads(line)
    return None


def report(pid, breaches, trace, scripts_path, known, workdir):
    """breaches: list of {run, seq, rule}.  Prints KNOWN-FINDING / VIOLATION lines; returns (#violations, known seen)."""
    runs, src = load_trace_index(trace) if breaches else ({}, {})
    violations, seen = 0, []
    os.makedirs(os.path.join(WORK, "replay"), exist_ok=True)
    printed = set()
    for b in breaches:
        ev = runs.get(b["run"], {}).get(b["seq"])
        s = src.get(b["run"], "")
        k = match_known(known, pid, b["rule"], ev, s)
        if k:
            key = (k["rule"], json.dumps(k.get("match", {}), sort_keys=True))
            if key not in printed:
                printed.add(key)
                print("KNOWN-FINDING: property=%s %s" % (pid, k["what"]))
            seen.append(k["rule"])
            continue
        violations += 1
        path = os.path.join(WORK, "replay", "%s-%s-run%d.json" % (pid, b["rule"], b["run"]))
        with open(path, "w") as f:
            json.dump({"property": pid, "rule": b["rule"], "run": b["run"], "seq": b["seq"], "src": s, "event": ev,
                       "script": script_of_run(scripts_path, b["run"]) if scripts_path else None}, f)
        if violations <= 5:
            print("VIOLATION property=%s replay=%s   (rule %s, source %s)" % (pid, path, b["rule"], s))
    return violations, seen



# ------------------------------------------------------------------------------------------------
# model checking of the implementation-shaped specification (EngineMC) and script export

import mcconf

TPS = 2

def hist_to_script(hist, src):
    """A decision history exported by TLC (EngineMC.hist) -> a harness script."""
    c = hist[0]["cfg"]
    resolver = "lru:%d" % c["lruMax"] if c["resolver"] == "lru" else c["resolver"]
    cfg = {"src": src, "policy": c["policy"], "drain": c["drain"], "retries": c["retries"], "ver": c["ver"],
           "ping_tmo": c["pingTmo"] * 1000 // TPS, "ka": c["ka"], "rejoin": c["rejoin"], "resolver": resolver, "cid": c["cid"],
           "tam_in": c["tamIn"] if c["tamIn"] > 0 else -1, "sei": c["sei"] if c["sei"] > 0 else -1,
           # a two-unit CONNECT: a user name makes it longer than the one-unit buffer (20 bytes) and shorter than two units
           "copt": 1 if c.get("connectUnits", 1) > 1 else 0}
    steps = []
    for d in hist[1:]:
        d = dict(d)
        if d["a"] == "WriteDone":
            d = {"a": "Flush"}
        steps.append(d)
    steps += [{"a": "Settle"}, {"a": "Reset"}]
    return {"cfg": cfg, "steps": steps}


def tla_json_lines(text, tag):
    """PrintT(<<"TAG", ..., ToJson(x)>>) lines of a TLC run -> list of (fields..., parsed json)"""
    out = []
    for m in re.finditer(r'<<"%s", (?:"([^"]*)", )?"(.*)">>' % tag, text):
        try:
            out.append((m.group(1), json.loads(m.group(2).encode().decode("unicode_escape"))))
        except Exception:
            pass
    return out


def run_mc(pid, tier, workdir, export_depth=None):
    """Runs the bounded EngineMC instance(s) of a property.  Returns a summary with the scripts exported (S1) and,
    if an invariant failed, the decision histories that lead to the failure."""
    summary = {"instances": [], "distinct": 0, "generated": 0, "witnesses": set(), "scripts": [], "cex": [], "wall_s": 0.0, "complete": True}
    for i, consts in enumerate(mcconf.INSTANCES[pid][tier]):
        consts = dict(consts)
        every = consts.pop("_export_every", None)
        module = consts.get("_module", "EngineConf")
        if export_depth is not None:
            consts["ExportDepth"] = export_depth
            consts["ExportEvery"] = every or mcconf.EXPORT_EVERY.get(tier, 53)
        cfg = mcconf.cfg_text(consts)
        limit = int(os.environ.get("VERIF_MC_BUDGET_S", "100" if tier == "quick" else "480"))
        res = run_tlc(os.path.join(workdir, "mc%d" % i), SPEC, module, cfg, workers=TLC_WORKERS, timeout=limit, java_opts="-Xss1g -Xmx16g", soft=True)
        text = res["text"]
        for name, h in tla_json_lines(text, "CEX"):
            summary["cex"].append({"invariant": name, "script": hist_to_script(h, "MC-CEX:%s:%s" % (pid, name))})
        mine = []
        for _, h in tla_json_lines(text, "SCRIPT"):
            mine.append(hist_to_script(h, "S1:%s:%d" % (pid, len(summary["scripts"]) + len(mine))))
        summary["scripts"] += mine
        # an instance exported in full (small: every transition) is replayed in full, not sampled
        summary.setdefault("full", []).extend(mine if every == 1 and len(mine) <= 10000 else [])
        summary.setdefault("sampled", []).extend([] if every == 1 and len(mine) <= 10000 else mine)
        for m in re.finditer(r'<<"WITNESS", <<(.*)>>>>', text):
            summary["witnesses"].add(m.group(1).replace('"', ""))
        ok = res["ok"] or (res.get("timed_out", False) and not res["violated"])
        if res.get("timed_out"):
            summary["complete"] = False
        if not ok and not summary["cex"]:
            sys.stdout.write(text[-3000:])
            raise ToolError("TLC failed on the EngineMC instance of " + pid)
        summary["instances"].append({"constants": {k: str(v) for k, v in consts.items()}, "distinct": res.get("distinct", 0), "generated": res.get("generated", 0),
                                     "depth": res.get("depth", 0), "wall_s": res["wall_s"], "ok": ok, "finished": not res.get("timed_out", False)})
        summary["distinct"] += res.get("distinct", 0)
        summary["generated"] += res.get("generated", 0)
        summary["wall_s"] += res["wall_s"]
    summary["witnesses"] = sorted(summary["witnesses"])
    return summary


def run_engine_defects(pid, tier, workdir):
    """Engine.tla with one defect switch set: the bounded instance must be refuted (the monitor / invariant of the property
    sees a slip of that kind on the model).  Returns (records for the evidence, counterexample scripts)."""
    out, scripts = [], []
    for k, (defect, consts, expect) in enumerate(getattr(mcconf, "ENGINE_DEFECTS", {}).get(pid, [])):
        consts = dict(consts)
        consts["EngDefects"] = '{"%s"}' % defect
        cfg = mcconf.cfg_text(consts)
        res = run_tlc(os.path.join(workdir, "mcdef%d" % k), SPEC, consts.get("_module", "EngineConf"), cfg, workers=TLC_WORKERS, timeout=300, java_opts="-Xss1g -Xmx16g", soft=True)
        found = [(name, h) for name, h in tla_json_lines(res["text"], "CEX") if name.split(":")[0] in expect]
        rec = {"defect": defect, "refuted": bool(found), "invariant": found[0][0] if found else None, "distinct": res.get("distinct", 0), "wall_s": res["wall_s"]}
        if found:
            rec["counterexample_steps"] = len(found[0][1]) - 1
            scripts.append(hist_to_script(found[0][1], "MC-DEFECT:%s:%s" % (pid, defect)))
        else:
            print("MODEL-SENSITIVITY property=%s the instance with defect switch %s was not refuted within its budget" % (pid, defect))
        out.append(rec)
    return out, scripts


def engine_trace(trace, workdir):
    """Conformance of the recorded executions with Engine.tla + the state invariants on every observed state."""
    cfg = "SPECIFICATION Spec\nCONSTANTS\n  PidMax = 65535\n  TPS = 1000\n  UnitsOn = FALSE\n  EngDefects = {}\nINVARIANT Verdict\nPOSTCONDITION Consumed\nCHECK_DEADLOCK FALSE\n"
    res = run_tlc(os.path.join(workdir, "et"), SPEC, "EngineTrace", cfg, env={"TRACE": trace}, workers=1, timeout=3000, java_opts="-Xss1g -Xmx8g")
    v = tla_json_lines(res["text"], "VERDICT")
    if not v or not res["ok"]:
        sys.stdout.write(res["text"][-4000:])
        raise ToolError("conformance checking (EngineTrace) did not complete")
    return v[0][1], res


# state invariant of Engine.tla -> the property whose statement it expresses
INV_PROPERTY = {"AlwaysDrains": "C08", "UserOpsTracked": "C01", "NoLiveIdTwice": "C04", "AllocConsistent": "C06", "PendingBound": "C06",
                "ReceiveMaximum": "C09", "NoStrandedWork": "C08"}


# ------------------------------------------------------------------------------------------------
# client lifecycle (C12): ClientLifecycle.tla + the real tokio client over a scripted transport

LIFECYCLE_REGRESSIONS = [
 {"cfg": {"src": "S3:lc-abandoned-results-at-disconnect", "auto_broker": True, "policy": "None"}, "steps": [{"a": "Start"}, {"a": "Run", "ms": 100}, {"a": "AutoBroker", "on": False}, {"a": "Subscribe", "drop": True}, {"a": "Abandon"}, {"a": "Yield", "n": 5}, {"a": "PeerClose"}, {"a": "AutoBroker", "on": True}, {"a": "Settle", "ms": 5000}, {"a": "Stop", "disc": False}, {"a": "Settle", "ms": 3000}]},
 {"cfg": {"src": "S3:lc-happy", "auto_broker": True}, "steps": [{"a": "Start"}, {"a": "Run", "ms": 100}, {"a": "Publish", "qos": 1}, {"a": "Run", "ms": 100}, {"a": "Stop", "disc": True}, {"a": "Settle", "ms": 2000}]},
 {"cfg": {"src": "S3:f02-stop-disc-then-connection-lost", "auto_broker": True}, "steps": [{"a": "Start"}, {"a": "Run", "ms": 100}, {"a": "WriteStall", "on": True}, {"a": "Stop", "disc": True}, {"a": "Yield", "n": 5}, {"a": "PeerClose"}, {"a": "Settle", "ms": 5000}, {"a": "Start"}, {"a": "Settle", "ms": 3000}]},
 {"cfg": {"src": "S3:f03-stop-disc-during-handshake", "auto_broker": False}, "steps": [{"a": "Start"}, {"a": "WaitWritten", "what": "CONNECT"}, {"a": "Stop", "disc": True}, {"a": "Yield", "n": 5}, {"a": "Send", "what": "connack_ok"}, {"a": "Settle", "ms": 60000}]},
 {"cfg": {"src": "S3:f18-close-after-stop-disc", "auto_broker": True}, "steps": [{"a": "Start"}, {"a": "Run", "ms": 100}, {"a": "WriteStall", "on": True}, {"a": "Stop", "disc": True}, {"a": "Close"}, {"a": "Yield", "n": 8}, {"a": "WriteStall", "on": False}, {"a": "Settle", "ms": 60000}]},
 {"cfg": {"src": "S3:lc-refused-then-stop"}, "steps": [{"a": "ConnectPlan", "mode": "refuse"}, {"a": "Start"}, {"a": "Run", "ms": 5000}, {"a": "Stop"}, {"a": "Settle", "ms": 5000}, {"a": "ConnectPlan", "mode": "ok"}, {"a": "Start"}, {"a": "Settle", "ms": 3000}, {"a": "Close"}, {"a": "Settle", "ms": 3000}]},
]


def lifecycle_hist_to_script(hist, src, policy=""):
    """Decision history of ClientLifecycle.tla -> script for client_run (tokio client, scripted transport)."""
    outcomes = [d["a"] for d in hist if d["a"] in ("ConnectOk", "ConnectRefused")]
    plan = lambda o: {"a": "ConnectPlan", "mode": "ok_stalled" if o == "ConnectOk" else "refuse"}
    steps = [plan(outcomes[0])] if outcomes else []
    k = 0
    for d in hist:
        a = d["a"]
        if a == "Start": steps.append({"a": "Start"})
        elif a == "Stop": steps.append({"a": "Stop", "disc": False})
        elif a == "StopDisc": steps.append({"a": "Stop", "disc": True})
        elif a == "Close": steps.append({"a": "Close"})
        elif a == "Loop": steps.append({"a": "Yield", "n": 3})
        elif a in ("ConnectOk", "ConnectRefused"):
            steps.append({"a": "Yield", "n": 3})
            k += 1
            if k < len(outcomes): steps.append(plan(outcomes[k]))
            else: steps.append({"a": "ConnectPlan", "mode": "ok"})
        elif a == "Timer": steps.append({"a": "Run", "ms": 400})
        elif a == "Timeout": steps.append({"a": "Run", "ms": 6000})
        elif a == "WriteAll": steps += [{"a": "WriteStall", "on": False}, {"a": "Yield", "n": 3}, {"a": "WriteStall", "on": True}]
        elif a == "WriteError": steps += [{"a": "WriteError"}, {"a": "Yield", "n": 2}]
        elif a == "Send": steps += [{"a": "Send", "what": d["what"]}, {"a": "Yield", "n": 2}]
        elif a == "PeerClose": steps += [{"a": "PeerClose"}, {"a": "Yield", "n": 2}]
        elif a == "ReadError": steps += [{"a": "ReadError"}, {"a": "Yield", "n": 2}]
        # an operation the disconnection will fail, its result handle dropped at once: a QoS 0 publish (failed under the default
        # offline policy), and under PreserveNothing an unacknowledged subscribe as well
        elif a == "Abandon": steps += [{"a": "Abandon"}] + ([{"a": "Subscribe", "drop": True}] if policy == "None" else []) + [{"a": "Yield", "n": 3}]
    steps += [{"a": "WriteStall", "on": False}, {"a": "AutoBroker", "on": True}, {"a": "Settle", "ms": 30000}]
    return {"cfg": {"src": src, "auto_broker": False, "base_ms": 100, "max_ms": 1000, "jitter": "none", "connect_timeout_ms": 5000, "ka": 0, "policy": policy}, "steps": steps}


THREADED_LIFECYCLE_REGRESSIONS = [
 {"cfg": {"src": "S3:lc-threaded-happy", "adapter": "plain", "settle_full": True}, "steps": [{"a": "Start"}, {"a": "WaitConnected"}, {"a": "Publish", "qos": 1, "size": 10}, {"a": "Sleep", "ms": 50}, {"a": "Stop", "disc": True}, {"a": "Settle", "ms": 800}]},
 {"cfg": {"src": "S3:f02-threaded-stop-disc-then-connection-lost", "adapter": "plain", "settle_full": True}, "steps": [{"a": "Start"}, {"a": "WaitConnected"}, {"a": "WriteStall", "on": True}, {"a": "Stop", "disc": True}, {"a": "Sleep", "ms": 30}, {"a": "PeerClose"}, {"a": "Settle", "ms": 800}, {"a": "Start"}, {"a": "Settle", "ms": 600}]},
 {"cfg": {"src": "S3:f03-threaded-stop-disc-during-handshake", "adapter": "plain", "auto_broker": False, "settle_full": True}, "steps": [{"a": "Start"}, {"a": "WaitWritten"}, {"a": "Stop", "disc": True}, {"a": "Sleep", "ms": 30}, {"a": "Send", "what": "connack_ok"}, {"a": "Settle", "ms": 1500}]},
 {"cfg": {"src": "S3:f18-threaded-close-after-stop-disc", "adapter": "plain", "settle_full": True}, "steps": [{"a": "Start"}, {"a": "WaitConnected"}, {"a": "WriteStall", "on": True}, {"a": "Stop", "disc": True}, {"a": "Close"}, {"a": "Sleep", "ms": 50}, {"a": "WriteStall", "on": False}, {"a": "Settle", "ms": 1500}]},
 {"cfg": {"src": "S3:lc-threaded-refused-then-stop", "adapter": "plain", "settle_full": True}, "steps": [{"a": "ConnectPlan", "mode": "refuse"}, {"a": "Start"}, {"a": "Sleep", "ms": 300}, {"a": "Stop"}, {"a": "Settle", "ms": 500}, {"a": "ConnectPlan", "mode": "ok"}, {"a": "Start"}, {"a": "Settle", "ms": 500}, {"a": "Close"}, {"a": "Settle", "ms": 500}]},
]


def lifecycle_hist_to_threaded_script(hist, src):
    """Decision history of ClientLifecycle.tla -> script for thread_run (real threaded client, scripted non-blocking transport, real time)."""
    outcomes = [d["a"] for d in hist if d["a"] in ("ConnectOk", "ConnectRefused")]
    plan = lambda o: {"a": "ConnectPlan", "mode": "ok" if o == "ConnectOk" else "refuse"}
    steps = [plan(outcomes[0])] if outcomes else []
    k = 0
    for d in hist:
        a = d["a"]
        if a == "Start": steps.append({"a": "Start"})
        elif a == "Stop": steps.append({"a": "Stop", "disc": False})
        elif a == "StopDisc": steps.append({"a": "Stop", "disc": True})
        elif a == "Close": steps.append({"a": "Close"})
        elif a == "Loop": steps.append({"a": "Sleep", "ms": 6})
        elif a in ("ConnectOk", "ConnectRefused"):
            steps.append({"a": "Sleep", "ms": 15})
            k += 1
            steps.append(plan(outcomes[k]) if k < len(outcomes) else {"a": "ConnectPlan", "mode": "ok"})
        elif a == "Timer": steps.append({"a": "Sleep", "ms": 70})
        elif a == "Timeout": steps.append({"a": "Sleep", "ms": 450})
        elif a == "WriteAll": steps += [{"a": "WriteStall", "on": False}, {"a": "Sleep", "ms": 8}, {"a": "WriteStall", "on": True}]
        elif a == "WriteError": steps += [{"a": "WriteError"}, {"a": "Sleep", "ms": 8}]
        elif a == "Send": steps += [{"a": "Send", "what": d["what"]}, {"a": "Sleep", "ms": 8}]
        elif a == "PeerClose": steps += [{"a": "PeerClose"}, {"a": "Sleep", "ms": 8}]
        elif a == "ReadError": steps += [{"a": "ReadError"}, {"a": "Sleep", "ms": 8}]
    steps += [{"a": "WriteStall", "on": False}, {"a": "AutoBroker", "on": True}, {"a": "Settle", "ms": 700}]
    return {"cfg": {"src": src, "adapter": "plain", "auto_broker": False, "stall_new": True, "base_ms": 10, "max_ms": 40, "connect_timeout_ms": 300, "settle_full": True}, "steps": steps}


def run_lifecycle_mc(workdir, tier):
    """ClientLifecycle.tla: the repaired behaviour must satisfy everything; each recorded defect, switched back on, must be found."""
    out = {"instances": [], "distinct": 0, "generated": 0, "scripts": []}
    def cfg(defects, export, props=True, maxreq=4, maxatt=3):
        lines = ["SPECIFICATION Spec", "CONSTANTS", "  Defects = {%s}" % ", ".join('"%s"' % d for d in defects), "  MaxRequests = %d" % maxreq, "  MaxAttempts = %d" % maxatt,
                 "  ExportOn = %s" % ("TRUE" if export else "FALSE"), "  ExportEvery = %d" % (7 if tier == "quick" else 2)]
        if export: lines += ["VIEW View", "INVARIANT Export"]
        lines += ["INVARIANT EventStreamWellFormed", "INVARIANT LoopNeverDies"]
        if props and not export: lines += ["PROPERTY StopStops", "PROPERTY StartStarts", "PROPERTY CloseCloses"]
        lines.append("CHECK_DEADLOCK FALSE")
        return "\n".join(lines) + "\n"
    big = tier == "thorough"
    main = run_tlc(os.path.join(workdir, "lc-main"), SPEC, "ClientLifecycle", cfg([], False, True, 5 if big else 4, 3), workers=8, timeout=2400)
    if not main["ok"]:
        sys.stdout.write(main["text"][-3000:])
        raise ToolError("ClientLifecycle.tla (repaired behaviour) violates a C12 property: the specification and the code must be re-examined")
    out["instances"].append({"name": "repaired behaviour, safety + liveness", "distinct": main.get("distinct", 0), "generated": main.get("generated", 0), "wall_s": main["wall_s"], "ok": True})
    out["distinct"] += main.get("distinct", 0); out["generated"] += main.get("generated", 0)
    for defect, expect in (("close-fails-with-queued-disconnect", "LoopNeverDies"), ("stop-waits-for-refused-disconnect", "StopStops"), ("close-waits-for-discarded-disconnect", "CloseCloses"),
                           ("stale-last-connack", "EventStreamWellFormed"), ("abandoned-result-fails-close", "LoopNeverDies")):
        r = run_tlc(os.path.join(workdir, "lc-" + defect[:12]), SPEC, "ClientLifecycle", cfg([defect], False, True, 4, 3), workers=8, timeout=1200)
        found = (not r["ok"]) and (expect in r["text"] or (expect == "EventStreamWellFormed" and "Invariant" in r["text"]))
        out["instances"].append({"name": "defect switched on: " + defect, "expected_violation": expect, "found": found, "distinct": r.get("distinct", 0), "wall_s": r["wall_s"]})
        if not found:
            raise ToolError("ClientLifecycle.tla no longer exposes the recorded defect '%s' (expected a violation of %s)" % (defect, expect))
    exp = run_tlc(os.path.join(workdir, "lc-export"), SPEC, "ClientLifecycle", cfg([], True, False, 4, 3), workers=8, timeout=1200)
    if not exp["ok"]:
        sys.stdout.write(exp["text"][-3000:])
        raise ToolError("ClientLifecycle.tla export instance failed")
    out["histories"] = []
    for _, h in tla_json_lines(exp["text"], "SCRIPT"):
        out["histories"].append(h)
        out["scripts"].append(lifecycle_hist_to_script(h, "S1:lifecycle:%d" % len(out["scripts"]), policy="None" if len(out["scripts"]) % 2 else ""))
    out["instances"].append({"name": "script export (safety, view without history)", "distinct": exp.get("distinct", 0), "generated": exp.get("generated", 0), "wall_s": exp["wall_s"], "ok": True})
    return out


def client_run(scripts, workdir, name):
    os.makedirs(workdir, exist_ok=True)
    sp = os.path.join(workdir, name + ".scripts")
    with open(sp, "w") as f:
        for sc in scripts:
            f.write(json.dumps(sc) + "\n")
    trace = os.path.join(workdir, name + ".ndjson")
    rc, out, dt = sh([os.path.join(BIN, "client_run"), "--scripts-in", sp, "--out", trace], cwd=workdir, timeout=3000)
    if rc != 0:
        sys.stdout.write(out[-3000:])
        raise ToolError("client_run failed")
    stats = json.loads(out.strip().splitlines()[-1])
    stats["wall_s"] = round(dt, 1)
    return trace, sp, stats


def check_lifecycle(pid, tier, seed):
    t0 = time.time()
    log = {}
    workdir = os.path.join(WORK, pid)
    os.makedirs(workdir, exist_ok=True)
    build_harness(log)
    known = load_known()
    mc = run_lifecycle_mc(workdir, tier)
    s1 = sample_evenly(mc["scripts"], 4000 if tier == "quick" else 12000)
    scripts = LIFECYCLE_REGRESSIONS + s1
    trace, sp, stats = client_run(scripts, workdir, "tokio")
    verdict, tlc = trace_check(trace, [pid], os.path.join(workdir, "tc"))
    breaches = list(verdict["errs"][pid])
    violations, seen = report(pid, breaches, trace, sp, known, workdir)
    # the threaded client: the same state machine behind a different loop; real time, so fewer schedules
    th_scripts = THREADED_LIFECYCLE_REGRESSIONS + [lifecycle_hist_to_threaded_script(h, "S1:lifecycle-threaded:%d" % i)
                                                   for i, h in enumerate(sample_evenly(mc["histories"], 120 if tier == "quick" else 1200))]
    th_trace, th_sp, th_stats = run_scripts("thread_run", th_scripts, workdir, "threaded")
    th_verdict, _ = trace_check(th_trace, [pid], os.path.join(workdir, "tc-threaded"))
    th_breaches = list(th_verdict["errs"][pid])
    v2, seen2 = report(pid, th_breaches, th_trace, th_sp, known, workdir)
    violations += v2; seen += seen2; breaches += th_breaches
    stats["runs"] += th_stats["runs"]; stats["panics"] += th_stats["panics"]; verdict["events"] += th_verdict["events"]
    samples = [{"src": sc["cfg"]["src"], "steps": sc["steps"][:16]} for sc in (scripts[1], scripts[len(scripts) // 2], scripts[-1])]
    coverage = {"states": max(1, mc["distinct"]), "transitions": max(1, mc["generated"]), "traces_validated_against_impl": stats["runs"], "samples": samples,
                "exhaustive": True, "model_checking": {"instances": mc["instances"], "scripts_exported": len(mc["scripts"]), "scripts_replayed": len(s1)},
                "events_validated": verdict["events"], "panics_observed": stats["panics"], "breaches": len(breaches), "known_findings_seen": sorted(set(seen)),
                "explanation": ("TLC checked ClientLifecycle.tla (client state machine + event loop + transport; safety and liveness under fairness; %d distinct states) "
                                "and rediscovered each of the recorded defects when it is switched back on; %d executions of the real tokio client over a scripted transport "
                                "(regression scripts and %d schedules exported by TLC) were judged by the same monitor MonC12") % (mc["distinct"], stats["runs"], len(s1))}
    write_evidence(pid, tier, seed, coverage,
                   ["the tokio client on a current-thread runtime with a paused clock: 'bounded time' is virtual time after the scripted transport has reacted",
                    "the threaded client runs in real time: fewer schedules (40 quick / 400 thorough), sleeps between steps instead of yields",
                    "TLC as the judge of MonC12 and ClientLifecycle.tla"], time.time() - t0, violations, {"log": log})
    return 1 if violations else 0


# ------------------------------------------------------------------------------------------------
# reconnect back-off (C19): Backoff.tla + the real tokio client on a paused clock

STAB_REAL_US = 60000          # the stability period used in replays (real time: the client measures lifetimes with std Instant)
LONG_LIFE_REAL_US = 100000

def backoff_cfg(defects, export, maxhist, cfgset="Cfg_All"):
    lines = ["SPECIFICATION Spec", "CONSTANTS", "  CfgSet <- %s" % cfgset, "  Lifetimes <- Life_All", "  MaxHist = %d" % maxhist, "  DurMax = 1000000000",
             "  WaitLimit = 100000000", "  Defects = {%s}" % ", ".join('"%s"' % d for d in defects), "  ExportOn = %s" % ("TRUE" if export else "FALSE"),
             "VIEW View", "INVARIANT MonitorQuiet", "INVARIANT NeverDies", "INVARIANT WaitWithinMaximum", "INVARIANT Export", "CHECK_DEADLOCK FALSE"]
    return "\n".join(lines) + "\n"


def backoff_script(cfg, hist, src):
    """A behaviour of Backoff.tla (configuration + outcomes of the attempts) -> a script for the real tokio client."""
    c = {"src": src, "auto_broker": False, "jitter": cfg["jitter"], "slack_us": 1000, "life_slack_us": 25000, "connect_timeout_ms": 100000000,
         "stable_us": 0 if cfg["stableUs"] == 0 else STAB_REAL_US}
    for name, key in (("base", "baseUs"), ("max", "maxUs")):
        v = cfg[key]
        if v == 1000000000: c[name + "_tok"] = "durmax"
        elif v == 600000000: c[name + "_tok"] = "halfplus"
        else: c[name + "_us"] = v
    modes, total_us, expect = [], 0, []
    for h in hist:
        long_ = h.get("lifeUs", 0) > cfg["stableUs"] and h.get("lifeUs", 0) > 1000
        if h["a"] == "Fail": modes.append("refuse")
        elif h["a"] == "Reject": modes.append("reject:%d" % (LONG_LIFE_REAL_US if long_ else 0))
        elif h["a"] == "Eof": modes.append("eof:%d" % (LONG_LIFE_REAL_US if long_ else 0))
        else: modes.append("life:%d" % (LONG_LIFE_REAL_US if long_ else 0))
        if h.get("panic") or h.get("cap", 0) > 100000000:
            break
        total_us += h.get("cap", 0)
        expect.append({"wait": h.get("wait"), "cap": h.get("cap")})
    steps = [{"a": "ConnectPlan", "mode": "hang"}, {"a": "ConnectPlanSeq", "modes": modes}, {"a": "Start"},
             {"a": "Settle", "ms": total_us // 1000 + 500}, {"a": "Stop"}, {"a": "Settle", "ms": 200}]
    return {"cfg": c, "steps": steps, "expect": expect}


BACKOFF_REGRESSIONS = [
    backoff_script({"baseUs": 1000000, "maxUs": 64000000, "stableUs": 2000000, "jitter": "none"},
                   [{"a": "Ok", "lifeUs": 1000, "cap": 1000000}, {"a": "Reject", "lifeUs": 2001000, "cap": 2000000}, {"a": "Eof", "lifeUs": 2001000, "cap": 4000000},
                    {"a": "Reject", "lifeUs": 1000, "cap": 8000000}, {"a": "Fail", "cap": 16000000}], "S3:backoff-rejected-handshakes-after-a-success"),
    backoff_script({"baseUs": 10000000, "maxUs": 2000000, "stableUs": 2000000, "jitter": "none"},
                   [{"a": "Fail", "cap": 2000000}, {"a": "Fail", "cap": 4000000}, {"a": "Fail", "cap": 8000000}, {"a": "Ok", "lifeUs": 1000, "cap": 10000000},
                    {"a": "Ok", "lifeUs": 2001000, "cap": 2000000}, {"a": "Fail", "cap": 4000000}], "S3:f14a-base-above-max"),
    backoff_script({"baseUs": 0, "maxUs": 2000000, "stableUs": 2000000, "jitter": "uniform"}, [{"a": "Fail", "cap": 0}, {"a": "Fail", "cap": 0}], "S3:f14b-zero-base-uniform-jitter"),
    backoff_script({"baseUs": 600000000, "maxUs": 1000000000, "stableUs": 2000000, "jitter": "none"}, [{"a": "Fail", "cap": 600000000}], "S3:f14c-doubling-overflow"),
    backoff_script({"baseUs": 1000000, "maxUs": 8000000, "stableUs": 2000000, "jitter": "none"},
                   [{"a": "Fail", "cap": 1000000}, {"a": "Fail", "cap": 2000000}, {"a": "Fail", "cap": 4000000}, {"a": "Ok", "lifeUs": 1000, "cap": 8000000},
                    {"a": "Fail", "cap": 8000000}, {"a": "Ok", "lifeUs": 2001000, "cap": 1000000}, {"a": "Fail", "cap": 2000000}, {"a": "Fail", "cap": 4000000}], "S3:backoff-doubling-and-reset"),
]


def random_backoff_scripts(seed, n):
    import random
    rng = random.Random(seed)
    out = []
    for i in range(n):
        base = rng.choice([0, 1, 250, 999, 1000, 1500, 20000, 1000000, 1234567, 3000000, 9999999, 50000000])
        mx = rng.choice([0, 1, 999999, 1000000, 1000001, 2500000, 7000000, 64000000, 90000000])
        stab = rng.choice([0, 2000000])
        jit = rng.choice(["none", "uniform"])
        lo, hi = min(base, mx), max(max(base, mx), 1000000)
        hist, cap = [], lo
        for k in range(rng.randint(2, 9)):
            r = rng.random()
            if r < 0.45:
                hist.append({"a": "Fail", "cap": cap})
            elif r < 0.7:
                hist.append({"a": rng.choice(["Reject", "Eof"]), "lifeUs": rng.choice([1000, 2001000]), "cap": cap})
            else:
                life = rng.choice([1000, 2001000])
                if life > stab: cap = lo
                hist.append({"a": "Ok", "lifeUs": life, "cap": cap})
            cap = min(cap * 2, hi)
        out.append(backoff_script({"baseUs": base, "maxUs": mx, "stableUs": stab, "jitter": jit}, hist, "S2:backoff:%d" % i))
    return out


def observed_waits(trace):
    """run -> list of waits (us) read from the event stream of the real client"""
    waits = collections.defaultdict(list)
    end = {}
    with open(trace) as f:
        for line in f:
            e = json.loads(line)
            if e["ev"] != "ClientEv": continue
            r = e["run"]
            if e["kind"] in ("Failure", "Disconnection"): end[r] = e["tus"]
            elif e["kind"] == "Attempt" and r in end: waits[r].append(e["tus"] - end.pop(r))
            elif e["kind"] == "Stopped": end.pop(r, None)
    return waits


def check_backoff(pid, tier, seed):
    t0 = time.time()
    log = {}
    workdir = os.path.join(WORK, pid)
    os.makedirs(workdir, exist_ok=True)
    build_harness(log)
    known = load_known()
    big = tier == "thorough"
    mc = {"instances": [], "distinct": 0, "generated": 0}
    main = run_tlc(os.path.join(workdir, "bo-main"), SPEC, "Backoff", backoff_cfg([], False, 5 if big else 4), workers=TLC_WORKERS, timeout=3000, java_opts="-Xss1g -Xmx12g")
    if not main["ok"]:
        sys.stdout.write(main["text"][-3000:])
        raise ToolError("Backoff.tla (repaired behaviour) violates C19: the specification and the code must be re-examined")
    mc["instances"].append({"name": "repaired behaviour: every configuration x every history of %d attempts" % (5 if big else 4), "distinct": main.get("distinct", 0), "generated": main.get("generated", 0), "wall_s": main["wall_s"], "ok": True})
    mc["distinct"] += main.get("distinct", 0); mc["generated"] += main.get("generated", 0)
    for defect in ("initial-period-before-normalize", "zero-range-jitter", "unchecked-doubling", "stale-success-time"):
        r = run_tlc(os.path.join(workdir, "bo-" + defect[:8]), SPEC, "Backoff", backoff_cfg([defect], False, 3), workers=4, timeout=600)
        found = (not r["ok"]) and ("MonitorQuiet" in r["text"] or "NeverDies" in r["text"])
        mc["instances"].append({"name": "defect switched on: " + defect, "found": found, "distinct": r.get("distinct", 0), "wall_s": r["wall_s"]})
        if not found:
            raise ToolError("Backoff.tla no longer exposes the recorded defect '%s'" % defect)
    exp = run_tlc(os.path.join(workdir, "bo-export"), SPEC, "Backoff", backoff_cfg([], True, 4 if big else 3), workers=TLC_WORKERS, timeout=3000, java_opts="-Xss1g -Xmx12g")
    if not exp["ok"]:
        sys.stdout.write(exp["text"][-3000:])
        raise ToolError("Backoff.tla export instance failed")
    s1_all = [backoff_script(b["cfg"], b["hist"], "S1:backoff:%d" % i) for i, (_, b) in enumerate(tla_json_lines(exp["text"], "SCRIPT"))]
    mc["instances"].append({"name": "behaviour export", "distinct": exp.get("distinct", 0), "generated": exp.get("generated", 0), "wall_s": exp["wall_s"], "ok": True, "behaviours": len(s1_all)})
    # long lifetimes burn real time (45 ms each): bound the number of replayed behaviours
    s1 = sample_evenly(s1_all, 3000 if big else 500)
    s2 = random_backoff_scripts(seed, 1500 if big else 200)
    scripts = BACKOFF_REGRESSIONS + s1 + s2
    trace, sp, stats = client_run(scripts, workdir, "backoff")
    verdict, tlc = trace_check(trace, [pid], os.path.join(workdir, "tc"))
    breaches = list(verdict["errs"][pid])
    violations, seen = report(pid, breaches, trace, sp, known, workdir)
    # spec -> code: the waits Backoff.tla predicts for each exported behaviour against the waits the client made
    obs = observed_waits(trace)
    drift, compared = [], 0
    for i, sc in enumerate(scripts, 1):
        for k, ex in enumerate(sc.get("expect", [])):
            if k >= len(obs.get(i, [])):
                if ex["cap"] <= 100000000: drift.append({"run": i, "wait": k, "what": "no attempt observed", "src": sc["cfg"]["src"]})
                break
            w = obs[i][k]; compared += 1
            ok = (ex["cap"] <= w <= ex["cap"] + 1000) if sc["cfg"]["jitter"] == "none" else (0 <= w <= ex["cap"] + 1000)
            if not ok: drift.append({"run": i, "wait": k, "observed_us": w, "predicted_cap_us": ex["cap"], "src": sc["cfg"]["src"]})
    for d in drift[:5]:
        print("DRIFT property=%s the client's wait differs from what Backoff.tla predicts: %s" % (pid, json.dumps(d)))
    samples = [{"cfg": sc["cfg"], "attempt_outcomes": sc["steps"][1]["modes"], "observed_waits_us": obs.get(i + 1, [])} for i, sc in ((0, scripts[0]), (len(scripts) // 2, scripts[len(scripts) // 2]), (len(scripts) - 1, scripts[-1]))]
    coverage = {"states": max(1, mc["distinct"]), "transitions": max(1, mc["generated"]), "traces_validated_against_impl": stats["runs"], "samples": samples,
                "exhaustive": True, "model_checking": {"instances": mc["instances"], "behaviours_exported": len(s1_all), "behaviours_replayed": len(s1)},
                "scenario_sources": {"S1_tlc_behaviours": len(s1), "S2_random": len(s2), "S3_regression": len(BACKOFF_REGRESSIONS)},
                "events_validated": verdict["events"], "waits_compared_with_spec": compared, "drift": len(drift), "first_drift": drift[:3],
                "panics_observed": stats["panics"], "breaches": len(breaches), "known_findings_seen": sorted(set(seen)),
                "explanation": ("TLC checked Backoff.tla (normalize, initial period, doubling, clamp, jitter, reset rule) with MonC19 composed over every configuration of the alphabet x every "
                                "history of attempt outcomes and connection lifetimes (%d distinct states), and rediscovered each of the three repaired defects when it is switched back on; "
                                "%d executions of the real tokio client (paused tokio clock: waits are exact virtual times; lifetimes in real time) were judged by the same MonC19, "
                                "and %d waits were compared with the waits the specification predicts (%d differ)") % (mc["distinct"], stats["runs"], compared, len(drift))}
    write_evidence(pid, tier, seed, coverage,
                   ["tokio timers have 1 ms granularity: a wait may be up to 1 ms longer than the period (slackUs)",
                    "the client measures connection lifetimes with std::time::Instant (real time): replays use a 60 ms stability period, connections that end at once or after 100 ms, and a 25 ms tolerance",
                    "the threaded client shares MqttClientImpl::advance_reconnect_period and the reset rule; only its sleeping differs and is not observed here",
                    "TLC as the judge of MonC19 and Backoff.tla"], time.time() - t0, violations, {"log": log})
    return 1 if violations else 0


# ------------------------------------------------------------------------------------------------
# codec (C02 outbound half, C03): Codec.tla / CodecCases.tla / DecoderFraming.tla + the crate's encoder and decoder

def tlc_cases(workdir, direction):
    """TLC walks the case analysis of Codec.tla; returns (path of the exported cases, TLC result)."""
    cfg = 'SPECIFICATION Spec\nCONSTANT Dir = "%s"\nINVARIANT RemainingLengthRight\nCHECK_DEADLOCK FALSE\n' % direction
    res = run_tlc(os.path.join(workdir, "cases-" + direction), SPEC, "CodecCases", cfg, workers=1, timeout=900)
    if not res["ok"]:
        sys.stdout.write(res["text"][-3000:])
        raise ToolError("CodecCases.tla (%s) failed" % direction)
    path = os.path.join(workdir, "cases_%s.jsonl" % direction)
    with open(path, "w") as f:
        for _, c in tla_json_lines(res["text"], "CASE"):
            f.write(json.dumps(c) + "\n")
    return path, res


def tlc_framing(workdir, tier):
    cfg = ("SPECIFICATION Spec\nCONSTANTS\n  Frames <- Frames_Small\n  MaxFrames = %d\n  MaxSizes = {0, 4, 5}\n  ExportEvery = %d\nVIEW View\n"
           "INVARIANT ChunkingInvariant\nINVARIANT OversizeAtHeader\nINVARIANT Prompt\nINVARIANT Export\nCHECK_DEADLOCK FALSE\n") % (3 if tier == "thorough" else 2, 400 if tier == "thorough" else 40)
    res = run_tlc(os.path.join(workdir, "framing"), SPEC, "DecoderFraming", cfg, workers=TLC_WORKERS, timeout=3000, java_opts="-Xss1g -Xmx12g")
    if not res["ok"]:
        sys.stdout.write(res["text"][-3000:])
        raise ToolError("DecoderFraming.tla violates a C03 invariant: the specification and the code must be re-examined")
    path = os.path.join(workdir, "framing.jsonl")
    with open(path, "w") as f:
        for _, c in tla_json_lines(res["text"], "SCRIPT"):
            f.write(json.dumps(c) + "\n")
    return path, res


def tlc_encoder(workdir):
    """EncoderSteps.tla: fragmentation independence of the resumable encoder over every capacity sequence; exports capacity sequences."""
    def cfg(defects):
        return ("SPECIFICATION Spec\nCONSTANTS\n  Packets <- Packets_Small\n  Caps = {4, 5, 7, 9, 32}\n  Defects = {%s}\nVIEW View\n"
                "INVARIANT Prefix\nINVARIANT Whole\nINVARIANT Prompt\nINVARIANT Progress\nINVARIANT Export\nCHECK_DEADLOCK FALSE\n") % ", ".join('"%s"' % d for d in defects)
    main = run_tlc(os.path.join(workdir, "enc-main"), SPEC, "EncoderSteps", cfg([]), workers=4, timeout=900)
    if not main["ok"]:
        sys.stdout.write(main["text"][-3000:])
        raise ToolError("EncoderSteps.tla (repaired behaviour) violates a C02 invariant: the specification and the code must be re-examined")
    inst = [{"name": "EncoderSteps.tla: every (prefill, capacity) sequence over {4, 5, 7, 9, 32}; Prefix, Whole, Prompt, Progress", "distinct": main.get("distinct", 0), "generated": main.get("generated", 0), "wall_s": main["wall_s"], "ok": True}]
    for defect, expect in (("empty-tail-not-finished", "Prompt"), ("slice-restarts", "Prefix")):
        r = run_tlc(os.path.join(workdir, "enc-" + defect[:8]), SPEC, "EncoderSteps", cfg([defect]), workers=2, timeout=600)
        found = (not r["ok"]) and expect in r["text"]
        inst.append({"name": "defect switched on: " + defect, "expected_violation": expect, "found": found, "wall_s": r["wall_s"]})
        if not found:
            raise ToolError("EncoderSteps.tla no longer exposes the defect '%s'" % defect)
    path = os.path.join(workdir, "caps.jsonl")
    with open(path, "w") as f:
        for _, c in tla_json_lines(main["text"], "CAPS"):
            f.write(json.dumps(c) + "\n")
    return path, main, inst


def tlc_filters(workdir, tier):
    """Validation.tla: every token string up to the bound with the specification's verdicts."""
    cfg = 'SPECIFICATION Spec\nCONSTANTS\n  Tokens = {"a", "/", "+", "#", "$share"}\n  MaxLen = %d\nINVARIANT NamesAreFilters\nCHECK_DEADLOCK FALSE\n' % (6 if tier == "thorough" else 5)
    res = run_tlc(os.path.join(workdir, "filters"), SPEC, "Validation", cfg, workers=1, timeout=1800)
    if not res["ok"]:
        sys.stdout.write(res["text"][-3000:])
        raise ToolError("Validation.tla failed")
    path = os.path.join(workdir, "filters.jsonl")
    with open(path, "w") as f:
        for _, c in tla_json_lines(res["text"], "FILTER"):
            f.write(json.dumps(c) + "\n")
    return path, res


def validation_half(pid, tier, seed, workdir, known):
    """C16: the topic-name / topic-filter grammar of Validation.tla against the crate's validators."""
    filters, r = tlc_filters(workdir, tier)
    trace, stats = codec_run(["--filters", filters, "--seed", str(seed)], workdir, "filters")
    verdict, tlc = trace_check(trace, [pid], os.path.join(workdir, "tc-filters"))
    breaches = list(verdict["errs"][pid])
    violations, seen = report_codec(pid, breaches, trace, known)
    cov = {"states": r.get("distinct", 0), "transitions": r.get("generated", 0), "strings_from_tlc": stats.get("filters", 0), "codec_events": verdict["events"], "breaches": len(breaches),
           "model_checking": {"instances": [{"name": "Validation.tla: every string over {a, /, +, #, $share} up to length %d with the specification's verdicts (topic name, filter, shared, wildcard)" % (6 if tier == "thorough" else 5),
                                             "distinct": r.get("distinct", 0), "wall_s": r["wall_s"]}]}}
    return violations, seen, cov


def codec_run(args, workdir, name):
    trace = os.path.join(workdir, name + ".ndjson")
    rc, out, dt = sh([os.path.join(BIN, "codec_run")] + args + ["--out", trace], cwd=workdir, timeout=3000)
    if rc != 0:
        sys.stdout.write(out[-3000:])
        raise ToolError("codec_run failed")
    stats = json.loads(out.strip().splitlines()[-1])
    stats["wall_s"] = round(dt, 1)
    if stats["reference_disagreements"]:
        for d in stats["reference_disagreements"][:5]:
            print("TOOL-ERROR: " + d)
        raise ToolError("the harness's reference codec disagrees with Codec.tla: one of the two misreads the specification")
    return trace, stats


def report_codec(pid, breaches, trace, known):
    """Breaches of a codec trace -> KNOWN-FINDING / VIOLATION lines (the replay file is the case itself)."""
    runs, src = load_trace_index(trace) if breaches else ({}, {})
    violations, seen = 0, []
    os.makedirs(os.path.join(WORK, "replay"), exist_ok=True)
    for b in breaches:
        ev = runs.get(b["run"], {}).get(b["seq"])
        k = match_known(known, pid, b["rule"], ev, "codec")
        if k:
            print("KNOWN-FINDING: property=%s %s" % (pid, k["what"]))
            seen.append(k["rule"])
            continue
        violations += 1
        path = os.path.join(WORK, "replay", "%s-%s-case%d.json" % (pid, b["rule"], b["seq"]))
        with open(path, "w") as f:
            json.dump({"property": pid, "rule": b["rule"], "event": ev, "codec": True}, f)
        if violations <= 5:
            print("VIOLATION property=%s replay=%s   (rule %s, case %s: %s)" % (pid, path, b["rule"], (ev or {}).get("label") or (ev or {}).get("text") or (ev or {}).get("src"), (ev or {}).get("diff") or ""))
    return violations, seen


def codec_half(pid, tier, seed, workdir, known):
    """The codec-level part of C02 (outbound) or C03 (inbound).  Returns (violations, known seen, coverage additions)."""
    big = tier == "thorough"
    cov = {}
    if pid == "C03":
        cases, r1 = tlc_cases(workdir, "in")
        framing, r2 = tlc_framing(workdir, tier)
        trace, stats = codec_run(["--cases-in", cases, "--framing", framing, "--mutate", str(60000 if big else 4000), "--random", str(4000 if big else 400), "--seed", str(seed)], workdir, "codec-in")
        states, trans = r1.get("distinct", 0) + r2.get("distinct", 0), r1.get("generated", 0) + r2.get("generated", 0)
        cov["model_checking"] = {"instances": [
            {"name": "CodecCases.tla Dir=in: case analysis of the server-to-client layouts and tables (one state per case)", "distinct": r1.get("distinct", 0), "wall_s": r1["wall_s"]},
            {"name": "DecoderFraming.tla: every stream of the frame alphabet x every partition into chunks; ChunkingInvariant, OversizeAtHeader, Prompt", "distinct": r2.get("distinct", 0), "generated": r2.get("generated", 0), "wall_s": r2["wall_s"]}]}
    else:
        cases, r1 = tlc_cases(workdir, "out")
        caps, r2, enc_instances = tlc_encoder(workdir)
        trace, stats = codec_run(["--cases-out", cases, "--caps", caps, "--seed", str(seed)], workdir, "codec-out")
        states, trans = r1.get("distinct", 0) + r2.get("distinct", 0), r1.get("generated", 0) + r2.get("generated", 0)
        cov["model_checking"] = {"instances": [{"name": "CodecCases.tla Dir=out: case analysis of the client-to-server layouts (one state per case)", "distinct": r1.get("distinct", 0), "wall_s": r1["wall_s"]}] + enc_instances}
        cov["capacity_sequences_from_tlc"] = stats.get("capacity_sequences_from_tlc", 0)
    verdict, tlc = trace_check(trace, [pid], os.path.join(workdir, "tc-codec"))
    breaches = list(verdict["errs"][pid])
    violations, seen = report_codec(pid, breaches, trace, known)
    for d in stats.get("framing_drift", [])[:5]:
        print("DRIFT property=%s the decoder no longer behaves as DecoderFraming.tla: %s" % (pid, d[:300]))
    samples = []
    with open(trace) as f:
        lines = [json.loads(l) for l in f]
    for e in lines:
        if e["ev"] in ("Dec", "Enc") and len(samples) < 3 and e["seq"] % 97 == 5:
            samples.append({k: e[k] for k in e if k not in ("run",)})
    cov.update({"states": states, "transitions": trans, "cases_from_tlc": stats["cases"], "codec_events": verdict["events"], "streams": stats.get("streams", 0), "mutations": stats.get("mutations", 0),
                "framing_behaviours_replayed": stats.get("framing", 0), "framing_drift": len(stats.get("framing_drift", [])), "inexpressible_through_public_api": stats.get("inexpressible", 0),
                "breaches": len(breaches), "samples": samples or [lines[1]]})
    return violations, seen, cov


def check_codec(pid, tier, seed):
    """C03: decided by Codec.tla / DecoderFraming.tla and the crate's decoder."""
    t0 = time.time()
    log = {}
    workdir = os.path.join(WORK, pid)
    os.makedirs(workdir, exist_ok=True)
    build_harness(log)
    known = load_known()
    violations, seen, cov = codec_half(pid, tier, seed, workdir, known)
    coverage = {"states": max(1, cov["states"]), "transitions": max(1, cov["transitions"]), "traces_validated_against_impl": cov["codec_events"] - 1, "samples": cov["samples"],
                "exhaustive": True, "known_findings_seen": sorted(set(seen))}
    coverage.update({k: v for k, v in cov.items() if k not in ("states", "transitions", "samples")})
    coverage["explanation"] = ("TLC enumerated the case analysis of Codec.tla (layouts, property and reason-code tables transcribed from the OASIS text) and checked DecoderFraming.tla over every stream of its "
                               "frame alphabet and every partition into chunks; every enumerated byte string, %d multi-packet streams, %d DecoderFraming behaviours and %d byte-level mutations went through "
                               "the crate's decoder under whole / byte-by-byte / every two-way split / random chunkings, and MonC03 judged the outcomes") % (cov["streams"], cov["framing_behaviours_replayed"], cov["mutations"])
    write_evidence(pid, tier, seed, coverage,
                   ["Codec.tla as the reading of the OASIS specifications (the harness's reference codec is checked against it on every case)",
                    "content fidelity for arbitrary UTF-8 / binary content and 'never panics' beyond the enumerated classes are sampled (seeded mutations), not enumerated",
                    "TLC as the judge of MonC03, Codec.tla and DecoderFraming.tla"], time.time() - t0, violations, {"log": log})
    return 1 if violations else 0


# ------------------------------------------------------------------------------------------------
# AWS IoT builder (C20): AwsBuilder.tla + the real gneiss-mqtt-aws builders

HARNESS_AWS = os.path.join(ROOT, "harness-aws")

def check_aws(pid, tier, seed):
    t0 = time.time()
    log = {}
    workdir = os.path.join(WORK, pid)
    os.makedirs(workdir, exist_ok=True)
    rc, out, dt = sh(["cargo", "build", "--release", "--offline", "--quiet"], cwd=HARNESS_AWS, timeout=3000)
    log["harness_build_s"] = round(dt, 1)
    if rc != 0:
        sys.stdout.write(out[-6000:])
        raise ToolError("the AWS harness does not build against /repo's working tree")
    known = load_known()
    cfg = lambda defects: "SPECIFICATION Spec\nCONSTANT Defects = {%s}\nINVARIANT PropertyHolds\nCHECK_DEADLOCK FALSE\n" % ", ".join('"%s"' % d for d in defects)
    main = run_tlc(os.path.join(workdir, "aws-main"), SPEC, "AwsBuilder", cfg([]), workers=1, timeout=1200)
    if not main["ok"]:
        sys.stdout.write(main["text"][-3000:])
        raise ToolError("AwsBuilder.tla (repaired behaviour) violates C20: the specification and the code must be re-examined")
    d = run_tlc(os.path.join(workdir, "aws-defect"), SPEC, "AwsBuilder", cfg(["empty-client-id-kept"]), workers=1, timeout=600)
    found = (not d["ok"]) and "PropertyHolds" in d["text"]
    if not found:
        raise ToolError("AwsBuilder.tla no longer exposes the recorded defect 'empty-client-id-kept'")
    cases = os.path.join(workdir, "cases.jsonl")
    spec_out = {}
    with open(cases, "w") as f:
        for i, (_, c) in enumerate(tla_json_lines(main["text"], "CASE"), 1):
            f.write(json.dumps(c) + "\n")
            spec_out[i] = c["out"]
    trace = os.path.join(workdir, "aws.ndjson")
    rc, out, dt = sh([os.path.join(HARNESS_AWS, "target", "release", "verif-harness-aws"), "--cases", cases, "--random", str(40000 if tier == "thorough" else 3000), "--seed", str(seed), "--out", trace], cwd=workdir, timeout=3000)
    if rc != 0:
        sys.stdout.write(out[-3000:])
        raise ToolError("verif-harness-aws failed")
    stats = json.loads(out.strip().splitlines()[-1])
    verdict, tlc = trace_check(trace, [pid], os.path.join(workdir, "tc"))
    breaches = list(verdict["errs"][pid])
    # spec -> code: the builder's output against the output AwsBuilder.tla computes for the same configuration
    drift, compared, samples = [], 0, []
    with open(trace) as f:
        for line in f:
            e = json.loads(line)
            if e["ev"] != "Aws" or e.get("src") != "S1":
                continue
            want = spec_out.get(e["seq"])
            if want is None:
                continue
            compared += 1
            for k in ("outUser", "outPass", "outDrain", "outRetries"):
                if e[k] != want[k]:
                    drift.append({"case": e["seq"], "field": k, "code": e[k], "specification": want[k]})
            if (want["outCid"] == [103, 101, 110]) != (e["outCid"] != e["inCid"] or e["inCid"] in ([-1], [])):
                drift.append({"case": e["seq"], "field": "outCid", "code": e["outCid"]})
            if len(samples) < 3 and e["seq"] % 1500 == 7:
                samples.append({k: e[k] for k in ("auth", "inCid", "inMode", "inDrain", "inRetries", "signature", "outCid", "outUser", "outDrain", "outRetries")})
    for x in drift[:5]:
        print("DRIFT property=%s the builder's output differs from what AwsBuilder.tla computes: %s" % (pid, json.dumps(x)[:300]))
    violations, seen = report_codec(pid, breaches, trace, known)
    coverage = {"states": max(1, main.get("distinct", 0)), "transitions": max(1, main.get("generated", 0)), "traces_validated_against_impl": stats["cases"] + stats["random"],
                "samples": samples or [{"note": "no sample"}], "exhaustive": True,
                "model_checking": {"instances": [{"name": "AwsBuilder.tla: every configuration of the alphabet, property evaluated by MonC20 on the specification's output", "distinct": main.get("distinct", 0), "wall_s": main["wall_s"], "ok": True},
                                                 {"name": "defect switched on: empty-client-id-kept", "found": found, "wall_s": d["wall_s"]}]},
                "scenario_sources": {"S1_tlc_configurations": stats["cases"], "S2_random": stats["random"]},
                "outputs_compared_with_spec": compared, "drift": len(drift), "first_drift": drift[:3], "events_validated": verdict["events"], "breaches": len(breaches), "known_findings_seen": sorted(set(seen)),
                "explanation": ("TLC walked every configuration of AwsBuilder.tla's alphabet (client id absent / empty / given, other connect and client options, protocol version, drain policy and retry limit "
                                "set or not, mTLS / unsigned / signed custom authentication with raw and pre-encoded signatures), checked the property on the specification's output with MonC20 and found the "
                                "repaired defect again when it is switched on; the same %d configurations and %d seeded random ones went through the real AwsClientBuilder / AwsCustomAuthOptionsBuilder and "
                                "MonC20 judged what they produce; %d outputs were compared with the specification's (%d differ)") % (stats["cases"], stats["random"], compared, len(drift))}
    write_evidence(pid, tier, seed, coverage,
                   ["the verif accessors of gneiss-mqtt-aws repeat the three-line prelude of build_tokio / build_threaded (user options or defaults) before calling build_final_connect_options / apply_aws_defaults",
                    "SigV4 signing and TLS set-up are out of scope (they need the network)",
                    "TLC as the judge of MonC20 and AwsBuilder.tla"], time.time() - t0, violations, {"log": log})
    return 1 if violations else 0


# ------------------------------------------------------------------------------------------------
# byte pumps and result delivery (C13): BytePump.tla + the real tokio and threaded clients

def pump_cfg(adapter, driver, defects, export=False):
    lines = ["SPECIFICATION Spec", "CONSTANTS", '  Adapter = "%s"' % adapter, '  Driver = "%s"' % driver, "  Defects = {%s}" % ", ".join('"%s"' % d for d in defects),
             "  MaxBatches = 2", "  MaxBatch = 3", "  MaxIn = 5", "  BufSize = 3", "  MaxOps = 3",
             "INVARIANT WriteFaithful", "INVARIANT ReadFaithful", "INVARIANT ReadComplete", "INVARIANT AtMostOneResult", "INVARIANT AllResolvedAfterExit"]
    if export: lines.append("INVARIANT ExportReads")
    lines.append("CHECK_DEADLOCK FALSE")
    return "\n".join(lines) + "\n"

# defects of the pinned tree that BytePump.tla can switch back on, with the invariant each one breaks
PUMP_DEFECTS = [("ws", "threaded", "ws-cursor-from-start", "ReadFaithful"), ("ws", "threaded", "ws-read-overwrites", "ReadFaithful"),
                ("ws", "threaded", "ws-blocked-after-queue", "WriteFaithful"), ("plain", "threaded", "slot-never-resolved", "AllResolvedAfterExit"),
                ("ws", "threaded", "ws-error-drops-read-bytes", "ReadComplete")]

TOKIO_PUMP_REGRESSIONS = [
 {"cfg": {"src": "S3:pump-tokio-happy", "auto_broker": True, "ka": 0}, "steps": [{"a": "Start"}, {"a": "Run", "ms": 50}, {"a": "Publish", "qos": 0, "size": 10}, {"a": "Publish", "qos": 1, "size": 300}, {"a": "Publish", "qos": 2, "size": 20}, {"a": "Subscribe"}, {"a": "Inbound", "n": 3, "size": 40}, {"a": "Settle", "ms": 2000}]},
 {"cfg": {"src": "S3:pump-tokio-byte-at-a-time", "auto_broker": True, "ka": 0}, "steps": [{"a": "Start"}, {"a": "Run", "ms": 50}, {"a": "WriteChunk", "n": 1}, {"a": "ReadChunk", "n": 1}, {"a": "Publish", "qos": 1, "size": 9000}, {"a": "Publish", "qos": 0, "size": 5}, {"a": "Inbound", "n": 2, "size": 5000}, {"a": "Publish", "qos": 2, "size": 4100}, {"a": "Settle", "ms": 4000}]},
 {"cfg": {"src": "S3:pump-tokio-stall-and-resume", "auto_broker": True, "ka": 0}, "steps": [{"a": "Start"}, {"a": "Run", "ms": 50}, {"a": "WriteStall", "on": True}, {"a": "Publish", "qos": 1, "size": 5000}, {"a": "Publish", "qos": 1, "size": 5000}, {"a": "Yield", "n": 5}, {"a": "WriteChunk", "n": 7}, {"a": "WriteStall", "on": False}, {"a": "Settle", "ms": 4000}]},
 {"cfg": {"src": "S3:pump-tokio-partial-write-then-blocked", "auto_broker": True, "ka": 0}, "steps": [{"a": "Start"}, {"a": "Run", "ms": 50}, {"a": "WriteBudget", "n": 10}, {"a": "Publish", "qos": 1, "size": 1000}, {"a": "Yield", "n": 3}, {"a": "Inbound", "n": 1, "size": 30}, {"a": "Yield", "n": 3}, {"a": "Publish", "qos": 0, "size": 10}, {"a": "Yield", "n": 2}, {"a": "WriteStall", "on": False}, {"a": "Settle", "ms": 3000}]},
 {"cfg": {"src": "S3:results-tokio-submit-around-close", "auto_broker": True, "ka": 0}, "steps": [{"a": "Start"}, {"a": "Run", "ms": 50}, {"a": "Publish", "qos": 1, "size": 10}, {"a": "Subscribe"}, {"a": "Close"}, {"a": "Publish", "qos": 0, "size": 10}, {"a": "Publish", "qos": 1, "size": 10}, {"a": "Unsubscribe"}, {"a": "Settle", "ms": 3000}]},
]
THREADED_PUMP_REGRESSIONS = [
 {"cfg": {"src": "S3:pump-threaded-happy", "adapter": "plain"}, "steps": [{"a": "Start"}, {"a": "WaitConnected"}, {"a": "Publish", "qos": 0, "size": 10}, {"a": "Publish", "qos": 1, "size": 300}, {"a": "Publish", "qos": 2, "size": 20}, {"a": "Subscribe"}, {"a": "Inbound", "n": 3, "size": 40}, {"a": "Settle", "ms": 2000}]},
 {"cfg": {"src": "S3:pump-threaded-tiny-writes", "adapter": "plain", "write_chunk": 1, "read_chunk": 1, "block_every": 3}, "steps": [{"a": "Start"}, {"a": "WaitConnected"}, {"a": "Publish", "qos": 0, "size": 10}, {"a": "Publish", "qos": 1, "size": 6000}, {"a": "Publish", "qos": 2, "size": 20}, {"a": "Inbound", "n": 4, "size": 700}, {"a": "Settle", "ms": 4000}]},
 {"cfg": {"src": "S3:f12-threaded-submit-after-close", "adapter": "plain"}, "steps": [{"a": "Start"}, {"a": "WaitConnected"}, {"a": "Publish", "qos": 1, "size": 10}, {"a": "Close"}, {"a": "Publish", "qos": 0, "size": 10}, {"a": "Publish", "qos": 1, "size": 10}, {"a": "Publish", "qos": 1, "size": 10, "callback": True}, {"a": "Subscribe"}, {"a": "Settle", "ms": 1500}]},
 {"cfg": {"src": "S3:ws-happy", "adapter": "ws"}, "steps": [{"a": "Start"}, {"a": "WaitConnected"}, {"a": "Publish", "qos": 0, "size": 10}, {"a": "Publish", "qos": 1, "size": 300}, {"a": "Inbound", "n": 1, "size": 40}, {"a": "Settle", "ms": 2000}]},
 {"cfg": {"src": "S3:f11a-ws-message-larger-than-read-buffer", "adapter": "ws"}, "steps": [{"a": "Start"}, {"a": "WaitConnected"}, {"a": "Inbound", "n": 1, "size": 6000}, {"a": "Settle", "ms": 2000}]},
 {"cfg": {"src": "S3:f11b-ws-several-messages-per-read", "adapter": "ws"}, "steps": [{"a": "Start"}, {"a": "WaitConnected"}, {"a": "Inbound", "n": 3, "size": 10, "per_message": 1}, {"a": "Settle", "ms": 2000}]},
 {"cfg": {"src": "S3:f16-ws-blocked-write", "adapter": "ws", "ws_stall_ms": 1500}, "steps": [{"a": "Start"}, {"a": "WaitConnected"}, {"a": "Sleep", "ms": 50}] + [{"a": "Publish", "qos": 0, "size": 400000} for _ in range(30)] + [{"a": "Settle", "ms": 15000}]},
 {"cfg": {"src": "S3:ws-burst-then-close", "adapter": "ws"}, "steps": [{"a": "Start"}, {"a": "WaitConnected"}, {"a": "Inbound", "n": 3, "size": 20, "per_message": 1}, {"a": "PeerClose"}, {"a": "Settle", "ms": 2500}]},
 {"cfg": {"src": "S3:ws-large-outbound", "adapter": "ws"}, "steps": [{"a": "Start"}, {"a": "WaitConnected"}, {"a": "Publish", "qos": 1, "size": 200000}, {"a": "Publish", "qos": 1, "size": 200000}, {"a": "Publish", "qos": 0, "size": 10}, {"a": "Settle", "ms": 4000}]},
]


def random_pump_scripts(seed, n_tokio, n_threaded, n_ws):
    import random
    rng = random.Random(seed)
    tokio, threaded = [], []
    sizes = [0, 1, 5, 100, 127, 128, 1000, 4090, 4096, 4097, 9000, 20000]
    for i in range(n_tokio):
        steps = [{"a": "Start"}, {"a": "Run", "ms": 50}]
        closed = False
        for k in range(rng.randint(3, 14)):
            r = rng.random()
            if r < 0.15: steps.append({"a": "WriteChunk", "n": rng.choice([0, 1, 2, 3, 7, 64, 1000])})
            elif r < 0.25: steps.append({"a": "ReadChunk", "n": rng.choice([0, 1, 2, 5, 100])})
            elif r < 0.32 and not closed: steps += [{"a": "WriteStall", "on": True}, {"a": "Publish", "qos": rng.choice([0, 1, 2]), "size": rng.choice(sizes)}, {"a": "Yield", "n": rng.randint(1, 6)}, {"a": "WriteStall", "on": False}]
            elif r < 0.40 and not closed:
                # back-pressure: the transport takes part of what is offered, blocks while other events arrive, then resumes
                steps += [{"a": "WriteBudget", "n": rng.choice([1, 3, 10, 100, 4000, 5000])}, {"a": "Publish", "qos": rng.choice([0, 1, 2]), "size": rng.choice([100, 1000, 9000])}, {"a": "Yield", "n": rng.randint(1, 4)},
                          rng.choice([{"a": "Inbound", "n": 1, "size": 50}, {"a": "Publish", "qos": 1, "size": 20}, {"a": "Run", "ms": 10}]), {"a": "Yield", "n": rng.randint(1, 4)}, {"a": "WriteStall", "on": False}]
            elif r < 0.62: steps.append({"a": "Publish", "qos": rng.choice([0, 1, 2]), "size": rng.choice(sizes)})
            elif r < 0.70: steps.append({"a": rng.choice(["Subscribe", "Unsubscribe"])})
            elif r < 0.82 and not closed: steps.append({"a": "Inbound", "n": rng.randint(1, 4), "size": rng.choice(sizes)})
            elif r < 0.88: steps.append({"a": "Yield", "n": rng.randint(1, 5)})
            elif r < 0.93 and not closed: steps.append({"a": "Close"}); closed = True
            else: steps.append({"a": "Run", "ms": rng.choice([1, 10, 100])})
        steps.append({"a": "Settle", "ms": 4000})
        tokio.append({"cfg": {"src": "S2:pump-tokio:%d" % i, "auto_broker": True, "ka": 0}, "steps": steps})
    for i in range(n_threaded + n_ws):
        ws = i >= n_threaded
        cfg = {"src": "S2:pump-%s:%d" % ("ws" if ws else "threaded", i), "adapter": "ws" if ws else "plain"}
        if not ws: cfg.update({"write_chunk": rng.choice([0, 1, 2, 3, 7, 64, 1000]), "read_chunk": rng.choice([0, 1, 2, 5, 100]), "block_every": rng.choice([0, 0, 2, 3, 5])})
        steps = [{"a": "Start"}, {"a": "WaitConnected"}]
        closed = False
        for k in range(rng.randint(2, 8)):
            r = rng.random()
            if r < 0.5: steps.append({"a": "Publish", "qos": rng.choice([0, 1, 2]), "size": rng.choice(sizes), "callback": rng.random() < 0.3})
            elif r < 0.6: steps.append({"a": "Subscribe"})
            elif r < 0.85 and not closed:
                st = {"a": "Inbound", "n": rng.randint(1, 4), "size": rng.choice(sizes)}
                if ws: st["per_message"] = rng.choice([0, 1, 2])
                steps.append(st)
            elif r < 0.92 and not closed: steps.append({"a": "Close"}); closed = True
            else: steps.append({"a": "Sleep", "ms": rng.choice([1, 5, 20])})
        steps.append({"a": "Settle", "ms": 3000})
        threaded.append({"cfg": cfg, "steps": steps})
    return tokio, threaded


def run_scripts(binary, scripts, workdir, name):
    os.makedirs(workdir, exist_ok=True)
    sp = os.path.join(workdir, name + ".scripts")
    with open(sp, "w") as f:
        for sc in scripts:
            f.write(json.dumps(sc) + "\n")
    trace = os.path.join(workdir, name + ".ndjson")
    rc, out, dt = sh([os.path.join(BIN, binary), "--scripts-in", sp, "--out", trace], cwd=workdir, timeout=3000)
    if rc != 0:
        sys.stdout.write(out[-3000:])
        raise ToolError(binary + " failed")
    stats = json.loads(out.strip().splitlines()[-1])
    stats["wall_s"] = round(dt, 1)
    return trace, sp, stats


def check_pump(pid, tier, seed):
    t0 = time.time()
    log = {}
    workdir = os.path.join(WORK, pid)
    os.makedirs(workdir, exist_ok=True)
    build_harness(log)
    known = load_known()
    big = tier == "thorough"
    mc = {"instances": [], "distinct": 0, "generated": 0}
    reads = []
    for adapter, driver in (("plain", "tokio"), ("plain", "threaded"), ("ws", "threaded")):
        r = run_tlc(os.path.join(workdir, "bp-%s-%s" % (adapter, driver)), SPEC, "BytePump", pump_cfg(adapter, driver, [], export=(adapter == "ws")), workers=6, timeout=1800)
        if not r["ok"]:
            sys.stdout.write(r["text"][-3000:])
            raise ToolError("BytePump.tla (repaired behaviour, %s/%s) violates a C13 invariant: the specification and the code must be re-examined" % (adapter, driver))
        mc["instances"].append({"name": "repaired behaviour: %s transport, %s driver" % (adapter, driver), "distinct": r.get("distinct", 0), "generated": r.get("generated", 0), "wall_s": r["wall_s"], "ok": True})
        mc["distinct"] += r.get("distinct", 0); mc["generated"] += r.get("generated", 0)
        if adapter == "ws":
            seen_sizes = set()
            for _, x in tla_json_lines(r["text"], "READS"):
                seen_sizes.add(tuple(x["sizes"]))
            reads = sorted(seen_sizes)
    for adapter, driver, defect, expect in PUMP_DEFECTS:
        r = run_tlc(os.path.join(workdir, "bp-" + defect[:10]), SPEC, "BytePump", pump_cfg(adapter, driver, [defect]), workers=4, timeout=600)
        found = (not r["ok"]) and expect in r["text"]
        mc["instances"].append({"name": "defect switched on: " + defect, "expected_violation": expect, "found": found, "distinct": r.get("distinct", 0), "wall_s": r["wall_s"]})
        if not found:
            raise ToolError("BytePump.tla no longer exposes the recorded defect '%s'" % defect)
    # S1: every fragmentation of the peer's stream into WebSocket messages that TLC enumerated (1 unit = 1400 bytes, read buffer 3 units ~ 4096 bytes)
    s1 = [{"cfg": {"src": "S1:pump-ws-reads:%s" % "-".join(map(str, sizes)), "adapter": "ws"},
           "steps": [{"a": "Start"}, {"a": "WaitConnected"}, {"a": "Inbound", "n": 5, "size": 1390, "cuts": [k * 1400 for k in sizes]}, {"a": "Settle", "ms": 2500}]} for sizes in reads]
    # ... and the same fragmentations with the peer's Close frame right behind the last message: nothing sent before a close may be lost
    s1 += [{"cfg": {"src": "S1:pump-ws-reads-close:%s" % "-".join(map(str, sizes)), "adapter": "ws"},
            "steps": [{"a": "Start"}, {"a": "WaitConnected"}, {"a": "Inbound", "n": 5, "size": 1390, "cuts": [k * 1400 for k in sizes]}, {"a": "PeerClose"}, {"a": "Settle", "ms": 2500}]} for sizes in reads]
    tk, th = random_pump_scripts(seed, 1500 if big else 200, 400 if big else 60, 120 if big else 20)
    t_trace, t_sp, t_stats = run_scripts("client_run", TOKIO_PUMP_REGRESSIONS + tk, workdir, "pump-tokio")
    h_trace, h_sp, h_stats = run_scripts("thread_run", THREADED_PUMP_REGRESSIONS + s1 + th, workdir, "pump-threaded")
    violations, seen, events, breaches_n = 0, [], 0, 0
    for trace, sp, tag in ((t_trace, t_sp, "tc-tokio"), (h_trace, h_sp, "tc-threaded")):
        verdict, tlc = trace_check(trace, [pid], os.path.join(workdir, tag))
        breaches = list(verdict["errs"][pid])
        v, sn = report(pid, breaches, trace, sp, known, workdir)
        violations += v; seen += sn; events += verdict["events"]; breaches_n += len(breaches)
    skipped = 0
    with open(h_trace) as f:
        for line in f:
            if '"Skipped"' in line: skipped += 1
    samples = [{"src": sc["cfg"]["src"], "cfg": sc["cfg"], "steps": sc["steps"][:12]} for sc in (TOKIO_PUMP_REGRESSIONS[1], (s1 or THREADED_PUMP_REGRESSIONS)[0], th[0])]
    coverage = {"states": max(1, mc["distinct"]), "transitions": max(1, mc["generated"]), "traces_validated_against_impl": t_stats["runs"] + h_stats["runs"], "samples": samples, "exhaustive": True,
                "model_checking": {"instances": mc["instances"], "ws_fragmentations_exported": len(reads)},
                "scenario_sources": {"S1_tlc_ws_fragmentations": len(s1), "S2_random_tokio": len(tk), "S2_random_threaded_and_ws": len(th), "S3_regression": len(TOKIO_PUMP_REGRESSIONS) + len(THREADED_PUMP_REGRESSIONS)},
                "events_validated": events, "panics_observed": t_stats["panics"] + h_stats["panics"], "ws_runs_skipped_no_loopback": skipped, "breaches": breaches_n, "known_findings_seen": sorted(set(seen)),
                "explanation": ("TLC checked BytePump.tla (write loop with cumulative cursor, WebSocket adapter read/write as written, command channel and the two result mechanisms) for plain/tokio, plain/threaded and "
                                "ws/threaded (%d distinct states) and rediscovered each recorded defect when it is switched on; %d runs of the real tokio client (scripted transport: partial writes, stalls, read fragments) and %d "
                                "runs of the real threaded client (scripted non-blocking transport; WebSocket runs over a loopback socket incl. every fragmentation TLC enumerated) were judged by MonC13 at packet level") % (mc["distinct"], t_stats["runs"], h_stats["runs"])}
    write_evidence(pid, tier, seed, coverage,
                   ["faithfulness is judged at packet level by the reference codec (tagged payloads): lost / duplicated / reordered bytes show as an undecodable stream, a damaged payload, a missing or a repeated packet",
                    "the threaded client runs in real time (idle sleep 1 ms); 'never resolves' is concluded only after close() and a settle period",
                    "WebSocket runs need a loopback TCP socket; third-party adapters (tokio-tungstenite, TLS) are outside the model",
                    "TLC as the judge of MonC13 and BytePump.tla"], time.time() - t0, violations, {"log": log})
    return 1 if violations else 0


# C11, client level: configuration values the builders accept must not make the client panic or abort its event loop
EXTREME_TOKIO = [
 {"cfg": {"src": "S3:x1-connect-timeout-max", "auto_broker": True, "ka": 0, "connect_timeout_tok": "max"}, "steps": [{"a": "Start"}, {"a": "Run", "ms": 200}, {"a": "Publish", "qos": 1, "size": 10}, {"a": "Settle", "ms": 2000}]},
 {"cfg": {"src": "S3:x2-ack-timeout-max", "auto_broker": True, "ka": 0}, "steps": [{"a": "Start"}, {"a": "Run", "ms": 200}, {"a": "Publish", "qos": 1, "size": 10, "ack": "max"}, {"a": "Settle", "ms": 2000}]},
 {"cfg": {"src": "S3:x3-ping-timeout-max", "auto_broker": True, "ka": 1, "ping_timeout_tok": "max"}, "steps": [{"a": "Start"}, {"a": "Run", "ms": 3000}, {"a": "Publish", "qos": 1, "size": 10}, {"a": "Settle", "ms": 3000}]},
 {"cfg": {"src": "S3:x4-zero-timeouts", "auto_broker": True, "ka": 1, "ping_timeout_tok": "zero", "connect_timeout_tok": "zero"}, "steps": [{"a": "Start"}, {"a": "Run", "ms": 3000}, {"a": "Publish", "qos": 1, "size": 10, "ack": "zero"}, {"a": "Settle", "ms": 3000}]},
 {"cfg": {"src": "S3:x9-huge-reconnect-periods", "auto_broker": True, "ka": 0, "base_tok": "halfplus", "max_tok": "durmax", "jitter": "uniform"}, "steps": [{"a": "ConnectPlan", "mode": "refuse"}, {"a": "Start"}, {"a": "Settle", "ms": 2000}]},
 {"cfg": {"src": "S3:x10-keep-alive-65535", "auto_broker": True, "ka": 65535}, "steps": [{"a": "Start"}, {"a": "Run", "ms": 500}, {"a": "Publish", "qos": 2, "size": 10, "ack": "1"}, {"a": "Settle", "ms": 3000}]},
]
EXTREME_THREADED = [
 {"cfg": {"src": "S3:x5-threaded-huge-reconnect-wait", "adapter": "plain", "connect": "refuse", "base_tok": "halfplus", "max_tok": "max"}, "steps": [{"a": "Start"}, {"a": "Sleep", "ms": 300}, {"a": "Settle", "ms": 300}]},
 {"cfg": {"src": "S3:x6-threaded-connect-timeout-max", "adapter": "plain", "connect_timeout_tok": "max"}, "steps": [{"a": "Start"}, {"a": "WaitConnected"}, {"a": "Publish", "qos": 1, "size": 10}, {"a": "Settle", "ms": 1500}]},
 {"cfg": {"src": "S3:x7-threaded-ack-timeout-max", "adapter": "plain"}, "steps": [{"a": "Start"}, {"a": "WaitConnected"}, {"a": "Publish", "qos": 1, "size": 10, "ack": "max"}, {"a": "Settle", "ms": 1500}]},
 {"cfg": {"src": "S3:x8-threaded-zero-timeouts", "adapter": "plain", "connect_timeout_tok": "zero", "ping_timeout_tok": "zero"}, "steps": [{"a": "Start"}, {"a": "Sleep", "ms": 300}, {"a": "Publish", "qos": 1, "size": 10, "ack": "zero"}, {"a": "Settle", "ms": 1500}]},
]


def extreme_config_half(pid, tier, seed, workdir, known):
    """Real clients under extreme configuration values; MonC11 judges whether the event loop survived."""
    import random
    rng = random.Random(seed)
    tok = lambda: rng.choice(["", "", "max", "zero"])
    extra_t, extra_h = [], []
    for i in range(60 if tier == "thorough" else 12):
        extra_t.append({"cfg": {"src": "S2:extreme-tokio:%d" % i, "auto_broker": True, "ka": rng.choice([0, 1, 65535]), "connect_timeout_tok": tok(), "ping_timeout_tok": tok(),
                                "base_tok": rng.choice(["", "durmax", "halfplus"]), "max_tok": rng.choice(["", "durmax"]), "jitter": rng.choice(["none", "uniform"])},
                        "steps": [{"a": "ConnectPlan", "mode": rng.choice(["ok", "ok", "refuse"])}, {"a": "Start"}, {"a": "Run", "ms": 300}, {"a": "Publish", "qos": rng.choice([0, 1, 2]), "size": 10, "ack": tok()},
                                  {"a": "ConnectPlan", "mode": "ok"}, {"a": "Settle", "ms": 2500}]})
        extra_h.append({"cfg": {"src": "S2:extreme-threaded:%d" % i, "adapter": "plain", "connect": rng.choice(["", "", "refuse"]), "connect_timeout_tok": tok(), "ping_timeout_tok": tok(),
                                "base_tok": rng.choice(["", "max", "halfplus", "zero"]), "max_tok": rng.choice(["", "max", "zero"])},
                        "steps": [{"a": "Start"}, {"a": "Sleep", "ms": 200}, {"a": "Publish", "qos": rng.choice([0, 1, 2]), "size": 10, "ack": tok()}, {"a": "Settle", "ms": 800}]})
    t_trace, t_sp, t_stats = run_scripts("client_run", EXTREME_TOKIO + extra_t, workdir, "extreme-tokio")
    h_trace, h_sp, h_stats = run_scripts("thread_run", EXTREME_THREADED + extra_h, workdir, "extreme-threaded")
    violations, seen, events, n = 0, [], 0, 0
    for trace, sp, tag in ((t_trace, t_sp, "tc-xt"), (h_trace, h_sp, "tc-xh")):
        verdict, tlc = trace_check(trace, [pid], os.path.join(workdir, tag))
        breaches = list(verdict["errs"][pid])
        v, sn = report(pid, breaches, trace, sp, known, workdir)
        violations += v; seen += sn; events += verdict["events"]; n += len(breaches)
    return violations, seen, {"states": 0, "transitions": 0, "codec_events": events + 1, "client_runs_extreme_configuration": t_stats["runs"] + h_stats["runs"], "breaches": n}

# ------------------------------------------------------------------------------------------------
# engine properties

def engine_volume(tier):
    if tier == "thorough":
        v = dict(scripted=600, adversarial=600, faithful=600, cycles=1200, races=1200, limits=1200, interrupted=1200, wrapnear=1200, length=70, s1=8000)
    else:
        v = dict(scripted=150, adversarial=150, faithful=150, cycles=300, races=300, limits=300, interrupted=300, wrapnear=300, length=50, s1=2500)
    scale = float(os.environ.get("VERIF_VOLUME_SCALE", "1"))      # (for trying the plumbing of a tier quickly)
    return {k: (x if k == "length" else max(1, int(x * scale))) for k, x in v.items()}


def sample_evenly(items, n):
    if len(items) <= n:
        return items
    step = len(items) / float(n)
    return [items[int(i * step)] for i in range(n)]


def sample_deep(items, n):
    """Scripts are exported in breadth-first order, so later ones are deeper and replay everything their prefixes do:
    half of the sample comes from the deepest quarter, the rest evenly from the whole."""
    if len(items) <= n:
        return items
    q = len(items) * 3 // 4
    return sample_evenly(items[:q], n // 2) + sample_evenly(items[q:], n - n // 2)


def judge_trace(pid, trace, scripts, workdir, known, log, tag):
    """Monitors + conformance + state invariants over one recorded trace.  Returns (violations, known seen, details)."""
    verdict, tlc = trace_check(trace, [pid], os.path.join(workdir, tag))
    breaches = list(verdict["errs"][pid])
    conf, et = engine_trace(trace, os.path.join(workdir, tag))
    for b in conf["inv"]:
        for name in b["broken"]:
            if INV_PROPERTY.get(name) == pid:
                breaches.append({"run": b["run"], "seq": b["seq"], "rule": "state-invariant:" + name})
    violations, seen = report(pid, breaches, trace, scripts, known, workdir)
    for d in conf["drift"][:5]:
        print("DRIFT property=%s the code no longer behaves as Engine.tla: run %d event %d: %s %s" % (pid, d["run"], d["seq"], d["what"], d["detail"][:160]))
    details = {"events": verdict["events"], "monitor_states": tlc.get("distinct", 0), "breaches": len(breaches),
               "conformance": {"calls_replayed": conf["calls"], "states_compared": conf["states"], "runs": conf["runs"], "drift": len(conf["drift"]),
                               "first_drift": conf["drift"][:3], "invariant_breaches": len(conf["inv"]),
                               "situations_visited": sorted(" / ".join(str(x) for x in w) for w in conf["wit"])},
               "conformance_states": et.get("distinct", 0)}
    return violations, seen, details, conf


def check_engine_property(pid, tier, seed):
    t0 = time.time()
    log = {}
    workdir = os.path.join(WORK, pid)
    os.makedirs(workdir, exist_ok=True)
    build_harness(log)
    vol = engine_volume(tier)
    known = load_known()

    # 1. spec: the bounded instance of Engine.tla with this property's monitor composed
    depth = mcconf.EXPORT_DEPTH.get(pid, {}).get(tier, 0)
    mc = run_mc(pid, tier, workdir, export_depth=depth)
    s1 = mc.get("full", []) + sample_deep(mc.get("sampled", mc["scripts"]), vol["s1"])
    cex = [c["script"] for c in mc["cex"][:20]]
    defects, defect_scripts = run_engine_defects(pid, tier, workdir)
    if pid == "C08":
        # the service-time contract is about what next_service_time answers: ask after every step of every exported script
        def probed(sc):
            steps = []
            for st in sc["steps"]:
                steps.append(st)
                if st.get("a") not in ("Settle", "Reset", "Quiesce"): steps.append({"a": "NextSvc"})
            return {"cfg": sc["cfg"], "steps": steps}
        cex, defect_scripts, s1 = [probed(x) for x in cex], [probed(x) for x in defect_scripts], [probed(x) for x in s1]
    s1_path = os.path.join(workdir, "s1.scripts")
    with open(s1_path, "w") as f:
        for sc in cex + defect_scripts + s1:
            f.write(json.dumps(sc) + "\n")

    # 2. code: execute the scenarios on the real engine (S1 from TLC, S2 random, S3 regression)
    args = ["--state", "--scripts-in", s1_path, "--regress", "--scripted", str(vol["scripted"]), "--adversarial", str(vol["adversarial"]),
            "--faithful", str(vol["faithful"]), "--cycles", str(vol["cycles"]), "--races", str(vol["races"]), "--limits", str(vol["limits"]), "--interrupted", str(vol["interrupted"]), "--wrapnear", str(vol["wrapnear"]), "--len", str(vol["length"]), "--seed", str(seed)]
    if tier == "thorough" and pid == "C06":
        args += ["--wrap", "1"]
    trace, scripts, stats = engine_run(args, workdir, "runs")

    # 3. judge: property monitor, conformance with Engine.tla, state invariants on every observed state
    violations, seen, details, conf = judge_trace(pid, trace, scripts, workdir, known, log, "main")

    # a counterexample of the model that the code does not reproduce is a defect of the model, not of the code
    mc_note = ""
    if mc["cex"]:
        if violations == 0:
            print("MODEL-COUNTEREXAMPLE property=%s invariant %s fails on Engine.tla but its replay on the real engine is accepted" % (pid, mc["cex"][0]["invariant"]))
            mc_note = "model counterexample not reproduced on the code"
    # drift escalates: look harder (twice the random volume, another seed) around it before concluding
    if conf["drift"] and violations == 0:
        args2 = ["--state", "--scripted", str(vol["scripted"] * 2), "--adversarial", str(vol["adversarial"] * 2), "--faithful", str(vol["faithful"] * 2),
                 "--cycles", str(vol["cycles"] * 2), "--races", str(vol["races"] * 2), "--limits", str(vol["limits"] * 2), "--interrupted", str(vol["interrupted"] * 2), "--wrapnear", str(vol["wrapnear"] * 2), "--len", str(vol["length"]), "--seed", str(seed + 7919)]
        trace2, scripts2, stats2 = engine_run(args2, workdir, "escalated")
        v2, seen2, details2, _ = judge_trace(pid, trace2, scripts2, workdir, known, log, "esc")
        violations += v2
        seen += seen2
        details["escalation"] = {"runs": stats2["runs"], "events": details2["events"], "breaches": details2["breaches"]}
        stats["runs"] += stats2["runs"]

    codec_cov = None
    if pid == "C02":
        v3, seen3, codec_cov = codec_half(pid, tier, seed, workdir, known)
        violations += v3
        seen += seen3
    if pid == "C11":
        v3, seen3, codec_cov = extreme_config_half(pid, tier, seed, workdir, known)
        violations += v3
        seen += seen3
    if pid == "C16":
        v3, seen3, codec_cov = validation_half(pid, tier, seed, workdir, known)
        violations += v3
        seen += seen3

    samples = []
    with open(scripts) as f:
        lines = f.readlines()
    for i in (0, len(lines) // 3, len(lines) - 1):
        if 0 <= i < len(lines):
            sc = json.loads(lines[i])
            samples.append({"src": sc["cfg"]["src"], "steps": sc["steps"][:14]})
    coverage = {
        "states": max(1, mc["distinct"]), "transitions": max(1, mc["generated"]),
        "traces_validated_against_impl": stats["runs"], "samples": samples,
        "exhaustive": bool(mc["instances"]) and all(i["ok"] and i["finished"] for i in mc["instances"]),
        "model_checking": {"instances": mc["instances"], "witnesses": mc["witnesses"], "counterexamples": len(mc["cex"]), "note": mc_note,
                           "scripts_exported": len(mc["scripts"]), "scripts_replayed": len(s1) + len(cex),
                           "defect_switches": defects},
        "events_validated": details["events"],
        "scenario_sources": {"S1_tlc_scripts": len(s1) + len(cex), "S3_regression": True, "S2_scripted": vol["scripted"], "S2_adversarial": vol["adversarial"],
                             "S2_faithful": vol["faithful"], "S2_cycles": vol["cycles"], "S2_races": vol["races"], "S2_limits": vol["limits"], "S2_interrupted": vol["interrupted"], "S2_wrapnear": vol["wrapnear"]},
        "panics_observed": stats["panics"], "inapplicable_decisions": stats["inapplicable"],
        "breaches": details["breaches"], "known_findings_seen": sorted(set(seen)),
        "conformance": details["conformance"],
        "explanation": ("TLC explored the bounded EngineMC instance of Engine.tla with monitor Mon%s composed (%d distinct states, all invariants hold: %s); "
                        "%d recorded executions of the real engine (%d events) were judged by the same monitor, replayed against Engine.tla "
                        "(%d calls, %d states compared, %d drifting) and checked against its state invariants")
                       % (pid, mc["distinct"], "yes" if not mc["cex"] else "NO", stats["runs"], details["events"],
                          details["conformance"]["calls_replayed"], details["conformance"]["states_compared"], details["conformance"]["drift"]),
    }
    if codec_cov:
        coverage["codec"] = {k: v for k, v in codec_cov.items() if k not in ("states", "transitions")}
        coverage["states"] += codec_cov["states"]; coverage["transitions"] += codec_cov["transitions"]
        coverage["traces_validated_against_impl"] += codec_cov["codec_events"] - 1
    write_evidence(pid, tier, seed, coverage,
                   ["the reference codec and reference broker of the harness (qualified against Codec.tla by the C02/C03 checks)",
                    "TLC as the judge of MonBase/Mon%s, Engine.tla and EngineTrace.tla" % pid,
                    "bounds of the EngineMC instance as listed under model_checking.instances; beyond them only the recorded executions speak",
                    "virtual clock: durations in ms; writes complete as scripted"],
                   time.time() - t0, violations, {"log": log})
    return 1 if violations else 0


def replay(pid, path):
    r = json.load(open(path))
    if r.get("codec"):
        # a codec case is identified by its label; re-run the codec half and report whether that case still breaches
        workdir = os.path.join(WORK, pid, "replay")
        os.makedirs(workdir, exist_ok=True)
        build_harness({})
        v, seen, cov = codec_half(pid, "quick", int(os.environ.get("VERIF_SEED", "1")), workdir, load_known())
        print(json.dumps({"property": pid, "case": (r.get("event") or {}).get("label"), "violations_now": v}))
        return 1 if v else 0
    workdir = os.path.join(WORK, pid, "replay")
    os.makedirs(workdir, exist_ok=True)
    log = {}
    build_harness(log)
    sp = os.path.join(workdir, "in.scripts")
    with open(sp, "w") as f:
        f.write(json.dumps(r["script"]) + "\n")
    trace, scripts, stats = engine_run(["--scripts-in", sp], workdir, "replay")
    verdict, _ = trace_check(trace, [pid], workdir)
    print(json.dumps({"property": pid, "breaches": verdict["errs"][pid], "panics": stats["panics"]}))
    return 1 if verdict["errs"][pid] else 0


def main(argv):
    if not argv:
        print(__doc__)
        return 2
    pid = argv[0]
    tier = os.environ.get("VERIF_TIER", "quick")
    if "--tier" in argv:
        tier = argv[argv.index("--tier") + 1]
    seed = int(os.environ.get("VERIF_SEED", "1"))
    if "--replay" not in argv:
        # replay files of earlier runs of this property would be mistaken for findings of this run
        import glob
        for old in glob.glob(os.path.join(WORK, "replay", pid + "-*.json")):
            try: os.remove(old)
            except OSError: pass
    try:
        if "--replay" in argv:
            return replay(pid, argv[argv.index("--replay") + 1])
        rc = None
        if pid in ENGINE_PROPS:
            rc = check_engine_property(pid, tier, seed)
        elif pid == "C12":
            rc = check_lifecycle(pid, tier, seed)
        elif pid == "C19":
            rc = check_backoff(pid, tier, seed)
        elif pid == "C03":
            rc = check_codec(pid, tier, seed)
        elif pid == "C20":
            rc = check_aws(pid, tier, seed)
        elif pid == "C13":
            rc = check_pump(pid, tier, seed)
        if rc is None:
            print("no check registered for", pid)
            return 2
        if rc == 0 and not os.environ.get("VERIF_KEEP_TRACES"):
            # disk is limited: the recorded traces of a run in which everything held are not kept (replay files carry their own script)
            for root, _, files in os.walk(os.path.join(WORK, pid)):
                for fn in files:
                    if fn.endswith(".ndjson"):
                        try: os.remove(os.path.join(root, fn))
                        except OSError: pass
                    elif fn.endswith(".out"):
                        # TLC output carrying exported behaviours runs to gigabytes; its summary (the tail) is what is worth keeping
                        fp = os.path.join(root, fn)
                        try:
                            if os.path.getsize(fp) > 20 * 1024 * 1024:
                                with open(fp, "rb") as f:
                                    f.seek(-65536, 2)
                                    tail = f.read()
                                with open(fp, "wb") as f:
                                    f.write(b"[... truncated after a passing run ...]\n" + tail)
                        except OSError: pass
        return rc
    except ToolError as e:
        print("TOOL-ERROR:", e)
        return 2
