------------------------------ MODULE Monitors ------------------------------
(* The property monitors behind one dispatch interface, shared by trace validation
   (TraceCheck.tla: folded over recorded executions of the real code) and by model checking
   (EngineMC.tla: folded over the events each step of the implementation-shaped spec emits). *)
EXTENDS Naturals, Sequences, TLC

C01 == INSTANCE MonC01
C02 == INSTANCE MonC02
C03 == INSTANCE MonC03
C04 == INSTANCE MonC04
C05 == INSTANCE MonC05
C06 == INSTANCE MonC06
C07 == INSTANCE MonC07
C08 == INSTANCE MonC08
C09 == INSTANCE MonC09
C10 == INSTANCE MonC10
C11 == INSTANCE MonC11
C12 == INSTANCE MonC12
C13 == INSTANCE MonC13
C14 == INSTANCE MonC14
C15 == INSTANCE MonC15
C16 == INSTANCE MonC16
C17 == INSTANCE MonC17
C18 == INSTANCE MonC18
C19 == INSTANCE MonC19
C20 == INSTANCE MonC20

Names == {"C01", "C02", "C03", "C04", "C05", "C06", "C07", "C08", "C09", "C10", "C11", "C12", "C13", "C14", "C15", "C16", "C17", "C18", "C19", "C20"}

MonInit(n) == CASE n = "C01" -> C01!Init0 [] n = "C02" -> C02!Init0 [] n = "C03" -> C03!Init0 [] n = "C04" -> C04!Init0 [] n = "C05" -> C05!Init0
                [] n = "C06" -> C06!Init0 [] n = "C07" -> C07!Init0 [] n = "C08" -> C08!Init0 [] n = "C09" -> C09!Init0
                [] n = "C10" -> C10!Init0 [] n = "C11" -> C11!Init0 [] n = "C12" -> C12!Init0 [] n = "C13" -> C13!Init0 [] n = "C14" -> C14!Init0 [] n = "C15" -> C15!Init0
                [] n = "C16" -> C16!Init0 [] n = "C17" -> C17!Init0 [] n = "C18" -> C18!Init0 [] n = "C19" -> C19!Init0 [] n = "C20" -> C20!Init0

MonStep(n, s, e) == CASE n = "C01" -> C01!Apply(s, e) [] n = "C02" -> C02!Apply(s, e) [] n = "C03" -> C03!Apply(s, e) [] n = "C04" -> C04!Apply(s, e) [] n = "C05" -> C05!Apply(s, e)
                      [] n = "C06" -> C06!Apply(s, e) [] n = "C07" -> C07!Apply(s, e) [] n = "C08" -> C08!Apply(s, e) [] n = "C09" -> C09!Apply(s, e)
                      [] n = "C10" -> C10!Apply(s, e) [] n = "C11" -> C11!Apply(s, e) [] n = "C12" -> C12!Apply(s, e) [] n = "C13" -> C13!Apply(s, e) [] n = "C14" -> C14!Apply(s, e) [] n = "C15" -> C15!Apply(s, e)
                      [] n = "C16" -> C16!Apply(s, e) [] n = "C17" -> C17!Apply(s, e) [] n = "C18" -> C18!Apply(s, e) [] n = "C19" -> C19!Apply(s, e) [] n = "C20" -> C20!Apply(s, e)

RECURSIVE MonFold(_, _, _)
MonFold(n, s, evs) == IF evs = <<>> THEN s ELSE MonFold(n, MonStep(n, s, Head(evs)), Tail(evs))
=============================================================================
