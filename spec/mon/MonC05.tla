------------------------------- MODULE MonC05 -------------------------------
(* C05 - inbound publishes are acknowledged correctly; QoS 2 messages surface exactly once.
   An answer may be missing only because the connection ended first. *)
EXTENDS MonBase

Init0 == [run |-> 0, skip |-> FALSE, errs |-> <<>>,
          owed |-> <<>>,         \* acknowledgements owed on this connection, in arrival order: <<type, pid>>
          held |-> {},           \* QoS 2 ids surfaced and not yet released (session scoped)
          want |-> <<>>]         \* surfaces the last Rx obliges, in order: <<pid, qos, hash>>

Flush(m, e) == IF m.want # <<>> THEN Breach(m, e, "surface-missing") ELSE m

OnRxPublish(m, e) ==
    LET surface == e.qos < 2 \/ e.pid \notin m.held
        owe == CASE e.qos = 1 -> <<<<"PUBACK", e.pid>>>> [] e.qos = 2 -> <<<<"PUBREC", e.pid>>>> [] OTHER -> <<>>
    IN [m EXCEPT !.owed = @ \o owe,
                 !.held = IF e.qos = 2 THEN @ \cup {e.pid} ELSE @,
                 !.want = IF surface THEN Append(@, <<e.pid, e.qos, e.hash>>) ELSE @]

OnSurface(m, e) ==
    IF m.want = <<>> THEN Breach(m, e, IF e.qos = 2 THEN "qos2-redelivered" ELSE "surface-order")
    ELSE IF Head(m.want) # <<e.pid, e.qos, e.hash>> THEN Breach(m, e, "surface-order")
    ELSE [m EXCEPT !.want = Tail(@)]

OnAckTx(m, e) ==
    LET a == <<e.type, e.pid>>
    IN IF m.owed = <<>> THEN Breach(m, e, "ack-unsolicited")
       ELSE IF Head(m.owed) = a THEN [m EXCEPT !.owed = Tail(@)]
       ELSE IF \E i \in 1..Len(m.owed) : m.owed[i] = a THEN Breach(m, e, "ack-order")
       ELSE Breach(m, e, "ack-unsolicited")

Apply(m, e) ==
    IF e.ev = "Cfg" THEN [Init0 EXCEPT !.run = e.run, !.errs = m.errs]
    ELSE IF m.skip THEN m
    ELSE IF e.ev = "Surface" THEN (IF e.type = "PUBLISH" THEN OnSurface(m, e) ELSE m)
    ELSE IF Follower(e) /\ e.ev # "Tx" THEN m
    ELSE IF e.ev = "Tx" THEN
             (IF e.partial = 0 /\ e.type \in {"PUBACK", "PUBREC", "PUBCOMP"} THEN OnAckTx(m, e) ELSE m)
    ELSE LET f == Flush(m, e) IN
         IF f.skip THEN f
         ELSE CASE e.ev = "Rx" /\ e.type = "PUBLISH" /\ e.result = "ok" -> OnRxPublish(f, e)
                [] e.ev = "Rx" /\ e.type = "PUBREL" /\ e.result = "ok" ->
                       [f EXCEPT !.owed = Append(@, <<"PUBCOMP", e.pid>>), !.held = @ \ {e.pid}]
                [] e.ev = "Rx" /\ e.type = "CONNACK" /\ e.result = "ok" /\ e.sp = 0 -> [f EXCEPT !.held = {}]
                [] e.ev \in {"Open", "Close"} -> [f EXCEPT !.owed = <<>>]
                [] e.ev = "Reset" -> [f EXCEPT !.owed = <<>>, !.held = {}]
                [] e.ev = "Quiesce" /\ e.state = "Connected" /\ e.responsive = 1 /\ f.owed # <<>> -> Breach(f, e, "ack-missing")
                [] OTHER -> f
=============================================================================
