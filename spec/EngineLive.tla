----------------------------- MODULE EngineLive -----------------------------
(***************************************************************************************************
 C08, the progress half, as a state invariant of the bounded instances: from EVERY reachable state in
 which the engine is connected to a broker that has behaved, a driver that does nothing but what the
 engine's reported service time asks for (service when it says "now", complete the write, sleep until
 the reported time otherwise) and a broker that answers everything it owes, at once and in order,
 bring every user operation to a result within a bounded number of steps - without the engine ever
 answering "service me now" for a call that changes nothing (spin), and without it going quiet
 while work remains (stranded).

 This is "eventually all complete" made checkable without temporal logic: Drain runs the closed
 system (engine + faithful driver + responsive broker) as a deterministic function from the given
 state, so TLC evaluates it as an ordinary invariant on each state of the open system, whose
 environment (application, network, adversarial broker) remains free up to that point.
 ***************************************************************************************************)
EXTENDS EngineConf

CONSTANTS DrainFuel     \* bound on driver / broker steps from one state

UserOpsLeft(s) == {id \in DOMAIN s.ops : s.ops[id].user}

RECURSIVE OwedBy(_)
OwedBy(evs) == IF evs = <<>> THEN <<>>
               ELSE (IF Head(evs).ev = "Tx" /\ Head(evs).partial = 0 THEN OweFor(Head(evs)) ELSE <<>>) \o OwedBy(Tail(evs))

AnswerFor(o) == [Blank EXCEPT !.type = o.type, !.pid = o.pid, !.codes = IF o.type \in {"SUBACK", "UNSUBACK"} THEN o.n ELSE 0]

\* [verdict, steps]; verdict: "done" | "stranded" | "spin" | "fuel" | "error" | "noplan"
RECURSIVE Drain(_, _, _, _)
Drain(s, owed, cap, fuel) ==
    IF UserOpsLeft(s) = {} THEN "done"
    ELSE IF s.st # "Connected" THEN "done"                        \* the connection ended by the engine's own decision (timeout, error): reported, not stranded
    ELSE IF fuel = 0 THEN "fuel"
    ELSE LET ns == NextServiceTime(s, s.now) IN
         IF ns # None /\ ns <= s.now THEN
             LET valid == {p \in Plans : (Service(s, s.now, IF s.buf = 0 THEN cap ELSE s.cap, p, FALSE, {})).valid} IN
             IF valid = {} THEN "noplan"
             ELSE LET r == Service(s, s.now, IF s.buf = 0 THEN cap ELSE s.cap, CHOOSE p \in valid : TRUE, FALSE, {})
                  IN IF r.res # "ok" THEN "done"                  \* the engine failed the connection (e.g. keep-alive): a reported outcome
                     ELSE IF r.evs = <<>> /\ r.s = [s EXCEPT !.cap = r.s.cap] THEN "spin"
                     ELSE Drain(r.s, owed \o OwedBy(r.evs), cap, fuel - 1)
         ELSE IF s.pwc THEN
             LET r == WriteCompletion(s, s.now) IN IF r.res # "ok" THEN "done" ELSE Drain(r.s, owed, cap, fuel - 1)
         ELSE IF owed # <<>> /\ Head(owed).type \in {"PUBACK", "PUBREC", "PUBCOMP", "SUBACK", "UNSUBACK"}
                 /\ Head(owed).pid \notin (DOMAIN s.pendPub \cup DOMAIN s.pendNon) THEN
             \* the operation is gone (its ack timeout fired while the open system's broker was slow): its late acknowledgement is
             \* the recorded finding C11 late-ack-after-timeout, not a matter of progress - the broker of the closed system drops it
             Drain(s, Tail(owed), cap, fuel - 1)
         ELSE IF owed # <<>> THEN
             LET r == Recv(s, s.now, AnswerFor(Head(owed)))
             IN IF r.res # "ok" THEN "error"                      \* a conforming answer was refused
                ELSE Drain(r.s, Tail(owed) \o OwedBy(r.evs), cap, fuel - 1)
         ELSE IF ns # None THEN Drain([s EXCEPT !.now = ns], owed, cap, fuel - 1)      \* sleep until the reported time
         ELSE "stranded"

PendingOwed(b) == SelectSeq(b.owed, LAMBDA o : ~o.ans /\ o.type # "CONNACK")

\* states from which the closed system is started: connected, every packet so far legal, nothing adversarial pending
Drainable == env.open /\ es.st = "Connected" /\ env.connackSent /\ env.allLegal

DrainVerdict == IF Drainable THEN Drain(es, PendingOwed(env), 3, DrainFuel) ELSE "n/a"

AlwaysDrains == DrainVerdict \in {"n/a", "done"} \/ (PrintT(<<"CEX", "AlwaysDrains:" \o DrainVerdict, ToJson(hist)>>) /\ FALSE)
=============================================================================
