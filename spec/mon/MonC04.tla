------------------------------- MODULE MonC04 -------------------------------
(* C04 - QoS 1/2 publishes follow the MQTT delivery protocol across reconnects and sessions.
   Only complete packets are transmissions (a packet cut off by the end of the connection is not).
   A PUBREL answering a repeated PUBREC on the same connection is allowed (MQTT requires it). *)
EXTENDS MonBase

Init0 == [run |-> 0, skip |-> FALSE, errs |-> <<>>,
          ops |-> EmptyMap,      \* op -> record below (QoS>0 publishes only)
          owner |-> EmptyMap,    \* pid -> op for this session life
          sp |-> FALSE,          \* the current connection's CONNACK reported session present
          up |-> FALSE]          \* a successful CONNACK has been processed on the current connection

NewOp == [life |-> 1, txLife |-> 0, txConn |-> 0, pid |-> 0, hash |-> 0, pubrec |-> FALSE,
          relConn |-> 0, recConn |-> 0, credit |-> 0, done |-> FALSE, doneNow |-> FALSE]

OnPublish(m, e) ==
    LET o == IF Has(m.ops, e.op) THEN m.ops[e.op] ELSE NewOp
        upd == [o EXCEPT !.txLife = @ + 1, !.txConn = @ + 1, !.pid = e.pid, !.hash = e.hash]
        ok == [m EXCEPT !.ops = Put(@, e.op, upd), !.owner = Put(@, e.pid, e.op)]
    IN IF o.done /\ ~o.doneNow THEN Breach(m, e, "tx-after-complete")
       ELSE IF o.done THEN m
       ELSE IF o.pubrec THEN Breach(m, e, "publish-after-pubrec")
       ELSE IF o.txConn >= 1 THEN Breach(m, e, "retx-same-connection")
       ELSE IF o.txLife = 0 THEN
                IF e.dup = 1 THEN Breach(m, e, IF o.life = 1 THEN "first-dup" ELSE "fresh-dup") ELSE ok
       ELSE IF ~m.sp THEN Breach(m, e, "retx-no-session")
       ELSE IF e.dup = 0 THEN Breach(m, e, "retx-dup0")
       ELSE IF e.pid # o.pid THEN Breach(m, e, "retx-id")
       ELSE IF e.hash # o.hash THEN Breach(m, e, "retx-content")
       ELSE ok

OnPubrel(m, e) ==
    IF ~Has(m.owner, e.pid) THEN Breach(m, e, "pubrel-id")
    ELSE LET op == m.owner[e.pid]
             o == m.ops[op]
         IN IF o.done /\ ~o.doneNow THEN Breach(m, e, "tx-after-complete")
            ELSE IF o.done THEN m
            ELSE IF ~o.pubrec THEN Breach(m, e, "pubrel-id")
            ELSE IF o.relConn + 1 > o.recConn + o.credit THEN Breach(m, e, "pubrel-unprompted")
            ELSE [m EXCEPT !.ops[op].relConn = @ + 1]

OnConnack(m, e) ==
    IF e.sp = 1 THEN
        [m EXCEPT !.sp = TRUE, !.up = TRUE,
                  !.ops = MapAll(@, LAMBDA o : [o EXCEPT !.txConn = 0, !.relConn = 0, !.recConn = 0,
                                                         !.credit = IF o.pubrec /\ ~o.done THEN 1 ELSE 0])]
    ELSE
        [m EXCEPT !.sp = FALSE, !.up = TRUE, !.owner = EmptyMap,
                  !.ops = MapAll(@, LAMBDA o : IF o.done THEN o
                                                ELSE [o EXCEPT !.life = @ + 1, !.txLife = 0, !.txConn = 0, !.pid = 0, !.pubrec = FALSE,
                                                               !.relConn = 0, !.recConn = 0, !.credit = 0])]

Apply(m0, e) ==
    IF e.ev = "Cfg" THEN [Init0 EXCEPT !.run = e.run, !.errs = m0.errs]
    ELSE IF m0.skip THEN m0
    \* the events one entry-point call produces are recorded completions first, then packets, whatever their real order inside
    \* the call - so "transmitted after it completed" is only judged across calls (doneNow: completed by the current call)
    ELSE LET m == IF Follower(e) THEN m0 ELSE [m0 EXCEPT !.ops = MapAll(@, LAMBDA o : [o EXCEPT !.doneNow = FALSE])] IN
         CASE e.ev = "Tx" /\ e.partial = 0 /\ e.type = "PUBLISH" /\ e.qos > 0 /\ e.op # 0 -> OnPublish(m, e)
           [] e.ev = "Tx" /\ e.partial = 0 /\ e.type = "PUBREL" -> OnPubrel(m, e)
           [] e.ev = "Rx" /\ e.type = "PUBREC" /\ e.result = "ok" /\ e.rc < 128 /\ Has(m.owner, e.pid) ->
                  [m EXCEPT !.ops[m.owner[e.pid]].pubrec = TRUE, !.ops[m.owner[e.pid]].recConn = @ + 1]
           [] e.ev = "Rx" /\ e.type = "CONNACK" /\ e.result = "ok" -> OnConnack(m, e)
           [] e.ev \in {"Open", "Close"} ->
                  [m EXCEPT !.up = FALSE, !.sp = FALSE,
                            !.ops = MapAll(@, LAMBDA o : [o EXCEPT !.txConn = 0, !.relConn = 0, !.recConn = 0, !.credit = 0])]
           \* "once a PUBREC has been received ... a PUBREL with that identifier is sent until PUBCOMP": a QoS 2 publish whose PUBREC
           \* did not fail is not finished successfully by anything but its PUBCOMP
           [] e.ev = "Complete" /\ Has(m.ops, e.op) ->
                  IF e.ok = 1 /\ m.ops[e.op].pubrec /\ e.ack # "PUBCOMP" THEN Breach(m, e, "complete-without-pubcomp")
                  ELSE [m EXCEPT !.ops[e.op].done = TRUE, !.ops[e.op].doneNow = TRUE]
           [] e.ev = "Reset" -> [m EXCEPT !.ops = MapAll(@, LAMBDA o : [o EXCEPT !.done = TRUE]), !.owner = EmptyMap, !.up = FALSE]
           [] e.ev = "Quiesce" /\ e.state = "Connected" /\ e.responsive = 1 ->
                  IF \E k \in DOMAIN m.ops : m.ops[k].pubrec /\ ~m.ops[k].done /\ m.ops[k].relConn = 0
                  THEN Breach(m, e, "pubrel-missing") ELSE m
           [] OTHER -> m
=============================================================================
