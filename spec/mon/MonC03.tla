------------------------------- MODULE MonC03 -------------------------------
(* C03 - inbound decoding is faithful, chunking-invariant and robust to hostile bytes.

   One Dec event per byte string that was put through the crate's incremental decoder under many
   partitions into read chunks (whole, byte by byte, every two-way split of short strings, seeded random
   partitions):
     legal        1: the bytes are a well-formed packet (or a stream of them) that TLC built from the layouts
                  and tables of Codec.tla - every reason code the specification allows, any property order;
                  0: malformed on purpose (a class from Codec.tla) or a byte-level mutation
     matched      every chunking decoded exactly the abstract content of the case
     rejected     some chunking reported an error
     outcomes     number of distinct (packets, verdict) results over the chunkings (must be one)
     panics       chunkings under which the decoder panicked
     oversizeLate      with the maximum packet size one below the packet's size, fed byte by byte, the refusal came
                       later than the byte that completes the fixed header
     oversizeAccepted  ... or never came

   Reading (DESIGN appendix G): a malformed stream that parses unambiguously being accepted is not a breach;
   a well-formed packet being refused or mis-decoded is. *)
EXTENDS MonBase

Init0 == [run |-> 0, skip |-> FALSE, errs |-> <<>>]

\* every event is judged on its own; a breach does not hide later ones
B(m, e, rule) == [Breach(m, e, rule) EXCEPT !.skip = FALSE]

Apply(m, e) ==
    IF e.ev = "Cfg" THEN [Init0 EXCEPT !.run = e.run, !.errs = m.errs]
    ELSE IF e.ev # "Dec" THEN m
    ELSE IF e.panics > 0 THEN B(m, e, "panic")
    ELSE IF e.outcomes # 1 THEN B(m, e, "chunking")
    ELSE IF e.legal = 1 /\ e.rejected = 1 THEN B(m, e, "rejects-legal")
    ELSE IF e.legal = 1 /\ e.matched = 0 THEN B(m, e, "decode-mismatch")
    ELSE IF e.legal = 1 /\ (e.oversizeLate = 1 \/ e.oversizeAccepted = 1) THEN B(m, e, "oversize-late")
    ELSE m
=============================================================================
