--------------------------- MODULE DecoderFraming ---------------------------
(***************************************************************************************************
 Implementation-shaped specification of the incremental framing of gneiss-mqtt's decoder
 (gneiss-mqtt/src/decode.rs: Decoder::decode_bytes, process_read_packet_type,
 process_read_total_remaining_length, process_read_packet_body), fed with a byte stream that is
 cut into read chunks in every possible way.

 A stream is a sequence of frames; a frame is  [k, n, bad]:
     k    number of bytes of its remaining-length field (1, 2; 5 = four continuation bytes: over-long)
     n    the remaining length it announces (= the number of body bytes that follow, if the stream
          is not truncated before)
     bad  the body, once complete, does not decode
 and the stream may end anywhere (truncation).  The bytes are abstract: what matters to framing is
 which byte of which frame a position holds.  The body handed to the packet decoder is recorded as
 the list of stream positions it was assembled from (directly from the chunk, or through the
 scratch buffer when the body straddles chunks - the two paths of process_read_packet_body), so a
 mix-up in buffer handling shows as a wrong list.

 Checked: for every stream of the bounded alphabet and EVERY partition into chunks, the packets
 produced and the verdict equal those of the reference reading of the whole stream (Ref, written
 frame-wise, without chunks or buffers); a frame whose header announces more than the maximum
 packet size is refused when the header completes, before any body byte is taken.
 ***************************************************************************************************)
EXTENDS Naturals, Integers, Sequences, FiniteSets, TLC, Json

CONSTANTS Frames,       \* frame templates
          MaxFrames,    \* frames per stream
          MaxSizes,     \* maximum packet sizes in force (0 = none)
          ExportEvery

VARIABLES stream,       \* sequence of tokens [f: frame index, r: role, i: index within role]
          frames, max,
          pos,          \* tokens consumed so far
          st,           \* "Type" | "Len" | "Body" | "Err"
          cur,          \* index of the frame whose first byte was read last
          scratch,      \* positions buffered (length bytes, or body bytes of a straddling body)
          remaining,    \* remaining_length (-1 = None)
          out,          \* decoded packets: sequences of body positions
          verdict,      \* "ok" | "oversize" | "badlen" | "decode" | "terminal"
          errAt,        \* position (1-based) of the token at which the error was raised, 0 if none
          cuts          \* chunk sizes fed so far (observation only)

vars == <<stream, frames, max, pos, st, cur, scratch, remaining, out, verdict, errAt, cuts>>
View == <<stream, frames, max, pos, st, cur, scratch, remaining, out, verdict, errAt>>

\* tokens of one frame
FrameTokens(f, fr) ==
    <<[f |-> f, r |-> "T", i |-> 0]>>
    \o [j \in 1..(IF fr.k = 5 THEN 5 ELSE fr.k) |-> [f |-> f, r |-> IF fr.k = 5 \/ j < fr.k THEN "C" ELSE "E", i |-> j]]
    \o [j \in 1..(IF fr.k = 5 THEN 0 ELSE fr.n) |-> [f |-> f, r |-> "B", i |-> j]]
RECURSIVE StreamOf(_, _)
StreamOf(fs, f) == IF f > Len(fs) THEN <<>> ELSE FrameTokens(f, fs[f]) \o StreamOf(fs, f + 1)

----------------------------------------------------------------------------------------------------
\* reference reading of a whole stream: [out, verdict, errAt]
RECURSIVE Ref(_, _, _, _, _)
Ref(fs, toks, f, p, acc) ==      \* f: next frame, p: tokens before it, acc: packets so far
    IF f > Len(fs) \/ p >= Len(toks) THEN [out |-> acc, verdict |-> "ok", errAt |-> 0]
    ELSE LET fr == fs[f]
             hdr == 1 + (IF fr.k = 5 THEN 4 ELSE fr.k)            \* an over-long length is refused at its fourth byte
             avail == Len(toks) - p
         IN IF fr.k = 5 THEN (IF avail >= hdr THEN [out |-> acc, verdict |-> "badlen", errAt |-> p + hdr] ELSE [out |-> acc, verdict |-> "ok", errAt |-> 0])
            ELSE IF avail < hdr THEN [out |-> acc, verdict |-> "ok", errAt |-> 0]
            ELSE IF max # 0 /\ fr.n + hdr > max THEN [out |-> acc, verdict |-> "oversize", errAt |-> p + hdr]
            ELSE IF avail < hdr + fr.n THEN [out |-> acc, verdict |-> "ok", errAt |-> 0]
            ELSE IF fr.bad THEN [out |-> acc, verdict |-> "decode", errAt |-> p + hdr + fr.n]
            ELSE Ref(fs, toks, f + 1, p + hdr + fr.n, Append(acc, [j \in 1..fr.n |-> p + hdr + j]))

----------------------------------------------------------------------------------------------------
\* the decoder.  D == [st, cur, scratch, remaining, out, verdict, errAt]; chunk: sequence of positions

D == [st |-> st, cur |-> cur, scratch |-> scratch, remaining |-> remaining, out |-> out, verdict |-> verdict, errAt |-> errAt]

Fail(d, why, at) == [d EXCEPT !.st = "Err", !.verdict = why, !.errAt = at]

\* decode_bytes: the loop over the three processing functions.  Returns the decoder after the chunk.
RECURSIVE Run(_, _)
Run(d, chunk) ==
    CASE d.st = "Err" -> Fail(d, "terminal", d.errAt)
      [] d.st = "Type" ->
             IF chunk = <<>> THEN d
             ELSE Run([d EXCEPT !.st = "Len", !.cur = stream[Head(chunk)].f], Tail(chunk))
      [] d.st = "Len" ->
             IF chunk = <<>> THEN d
             ELSE LET p == Head(chunk)
                      sc == Append(d.scratch, p)
                      fr == frames[d.cur]
                  IN IF stream[p].r = "E"                                   \* decode_vli yields a value
                     THEN IF max = 0 \/ fr.n + 1 + Len(sc) <= max
                          THEN Run([d EXCEPT !.st = "Body", !.remaining = fr.n, !.scratch = <<>>], Tail(chunk))
                          ELSE Fail(d, "oversize", p)
                     ELSE IF Len(sc) >= 4 THEN Fail(d, "badlen", p)
                     ELSE Run([d EXCEPT !.scratch = sc], Tail(chunk))      \* (the code returns OutOfData when the chunk is exhausted: same state)
      [] OTHER ->      \* "Body": process_read_packet_body
             LET needed == d.remaining - Len(d.scratch) IN
             IF needed > Len(chunk) THEN [d EXCEPT !.scratch = @ \o chunk]
             ELSE LET body == IF d.scratch # <<>> THEN d.scratch \o SubSeq(chunk, 1, needed) ELSE SubSeq(chunk, 1, needed)
                      rest == SubSeq(chunk, needed + 1, Len(chunk))
                  IN IF frames[d.cur].bad THEN Fail(d, "decode", IF body = <<>> THEN 0 ELSE body[Len(body)])
                     ELSE Run([d EXCEPT !.st = "Type", !.scratch = <<>>, !.remaining = -1, !.out = Append(@, body)], rest)

----------------------------------------------------------------------------------------------------
FrameSeqs == UNION {[1..n -> Frames] : n \in 1..MaxFrames}

Init ==
    \E fs \in FrameSeqs, mx \in MaxSizes :
        \E cutAt \in 0..Len(StreamOf(fs, 1)) :
            /\ frames = fs /\ max = mx
            /\ stream = SubSeq(StreamOf(fs, 1), 1, cutAt)
            /\ pos = 0 /\ st = "Type" /\ cur = 0 /\ scratch = <<>> /\ remaining = -1 /\ out = <<>> /\ verdict = "ok" /\ errAt = 0 /\ cuts = <<>>

Feed(m) ==
    /\ st # "Err" /\ pos + m <= Len(stream)
    /\ LET d == Run(D, [j \in 1..m |-> pos + j])
       IN /\ st' = d.st /\ cur' = d.cur /\ scratch' = d.scratch /\ remaining' = d.remaining /\ out' = d.out /\ verdict' = d.verdict /\ errAt' = d.errAt
    /\ pos' = pos + m /\ cuts' = Append(cuts, m)
    /\ UNCHANGED <<stream, frames, max>>

Next == \E m \in 1..(Len(stream) - pos) : Feed(m)
Spec == Init /\ [][Next]_vars

----------------------------------------------------------------------------------------------------
Done == pos = Len(stream) \/ st = "Err"
Expected == Ref(frames, stream, 1, 0, <<>>)

\* C03: the same packets and the same verdict for every chunking of the same stream
ChunkingInvariant ==
    Done => LET e == Expected IN
            /\ out = e.out
            /\ verdict = e.verdict
            /\ (st = "Err" <=> e.verdict # "ok")
\* C03: refused as soon as the fixed header announces too much, before its body is buffered
OversizeAtHeader == verdict = "oversize" => errAt = Expected.errAt /\ stream[errAt].r = "E"
\* a zero-length body is decoded with the byte that completes the header, not with the next read
Prompt == (pos = Len(stream) /\ st # "Err") => Len(out) = Len(Expected.out)

Export == (Done /\ TLCGet("stats").distinct % ExportEvery = 0) =>
             PrintT(<<"SCRIPT", ToJson([frames |-> frames, take |-> Len(stream), max |-> max, cuts |-> cuts,
                                        packets |-> Len(out), verdict |-> verdict, errAt |-> errAt])>>)

\* alphabets
Fr(k, n, bad) == [k |-> k, n |-> n, bad |-> bad]
Frames_Small == {Fr(k, n, b) : k \in {1, 2}, n \in {0, 1, 3}, b \in BOOLEAN} \cup {Fr(5, 0, FALSE)}
=============================================================================
