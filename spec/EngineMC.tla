------------------------------ MODULE EngineMC ------------------------------
(***************************************************************************************************
 Bounded instances of Engine.tla for TLC: the engine composed with
   * an environment (application, driver, clock and an adversarial-or-conforming broker that keeps
     its own record of what it has received - the same bookkeeping as the reference broker of the
     Rust harness, so that scripts exported from here replay against the real code),
   * the property monitors of spec/mon (the very operators that judge recorded executions of the
     real code), folded over the events each step emits,
   * state invariants that are not event properties (structure of the tables, no panic, the
     service-time contract).
 The alphabet (which submissions, CONNACKs, acknowledgement behaviours, capacities ...) is chosen by
 constants so that each property group gets its own, small enough, instance.
 ***************************************************************************************************)
EXTENDS Engine, Json

CONSTANTS
    CfgSet,        \* configurations, one chosen in Init
    SubmitSet,     \* user operations that may be submitted: records [kind, qos, tmo, retain, need, topic, ualias, units, n]
    ConnackSet,    \* CONNACKs the broker may send: records [sp, rm, ka, tam, mqos, mps, ret, wild, subid, shared, acid, rc]
    AckHows,       \* subset of {"normal", "fail", "nomatch", "wrongtype", "unknownid", "dup", "wrongcount"}
    AckWhich,      \* subset of {"oldest", "newest"}
    InPubSet,      \* inbound publishes: records [qos, pid, dup, alias, topic]   (pid -1 fresh, -2 repeat last)
    Others,        \* subset of {"Pingresp", "ServerDisconnect", "Auth", "Garbage", "InPubrel", "InPubrelUnknown", "Disconnect", "Reset"}
    Caps,          \* output buffer capacities (units)
    MaxOps, MaxConns, MaxIn, Horizon, Deadline,
    EarlyConnack,  \* TRUE: the broker may send CONNACK at any time while the connection is open
    Faithful,      \* TRUE: the driver services whenever the engine asks and completes writes before time passes
    Which,         \* monitors composed with the engine
    KnownRules,    \* monitor rules of findings that are recorded (known_findings.json) rather than repaired: not counted here
    ExportDepth,   \* >0: export decision histories of states at this depth or deeper (script export) ...
    ExportEvery    \* ... sampling roughly one state in ExportEvery

VARIABLES es,      \* engine state (Engine!InitState)
          env,     \* environment: driver + broker bookkeeping
          mon,     \* monitor states
          last,    \* [res, evs] of the last step (observation only)
          hist     \* decisions taken so far (observation only; excluded from the VIEW)

vars == <<es, env, mon, last, hist>>

\* Operation ids only matter through their relative order (submission order) and identity.  The view
\* renumbers them by rank, so that histories that differ only in how many internal operations
\* (CONNECTs, acknowledgements, pings) were created on the way are explored once.
AllIds(s) == DOMAIN s.ops \cup SeqToSet(s.userQ) \cup SeqToSet(s.resubQ) \cup SeqToSet(s.hpQ) \cup SeqToSet(s.pwcOps)
             \cup Range(s.alloc) \cup Range(s.pendPub) \cup Range(s.pendNon) \cup {r.id : r \in s.tmos} \cup (IF s.cur = None THEN {} ELSE {s.cur})
Canon(s) ==
    LET ids == AllIds(s)
        rk(id) == Cardinality({x \in ids : x < id}) + 1
        mapSeq(q) == [i \in 1..Len(q) |-> rk(q[i])]
        mapFn(f) == [p \in DOMAIN f |-> rk(f[p])]
    IN [s EXCEPT !.ops = [r \in {rk(id) : id \in DOMAIN s.ops} |-> s.ops[CHOOSE id \in DOMAIN s.ops : rk(id) = r]],
                 !.userQ = mapSeq(@), !.resubQ = mapSeq(@), !.hpQ = mapSeq(@), !.pwcOps = mapSeq(@),
                 !.alloc = mapFn(@), !.pendPub = mapFn(@), !.pendNon = mapFn(@),
                 !.tmos = {[id |-> rk(r.id), at |-> r.at] : r \in @},
                 !.cur = IF @ = None THEN None ELSE rk(@),
                 !.cap = IF s.buf = 0 THEN 0 ELSE @,          \* the capacity of a drained buffer is chosen afresh by the next call
                 !.nextOp = Cardinality(ids) + 1]
View == <<Canon(es), env, mon>>

M == INSTANCE Monitors

----------------------------------------------------------------------------------------------------
\* wrapper events of the harness (same field names as harness/src/sim.rs)

B2I(b) == IF b THEN 1 ELSE 0

EvCfg(cfg) == [ev |-> "Cfg", run |-> 1, seq |-> 0, t |-> 0, src |-> "MC", policy |-> cfg.policy, drain |-> cfg.drain, retries |-> cfg.retries,
               ver |-> cfg.ver, pingTmo |-> cfg.pingTmo, ka |-> cfg.ka, rejoin |-> cfg.rejoin, resolver |-> cfg.resolver, cid |-> cfg.cid,
               faithful |-> B2I(Faithful), tamIn |-> cfg.tamIn, sei |-> cfg.sei, ohash |-> 7, unit |-> TPS]

Sub(evs, kinds) == SelectSeq(evs, LAMBDA e : e.ev \in kinds)
\* the harness logs completions first, then what reached the wire, then what was surfaced
Ordered(evs) == Sub(evs, {"Complete"}) \o Sub(evs, {"Tx"}) \o Sub(evs, {"Surface", "Settings"})

EvSnapshot(s, quiescent, unresolved) ==
    [ev |-> "Snapshot", run |-> 0, seq |-> 0, t |-> s.now, quiescent |-> B2I(quiescent), state |-> s.st,
     ops |-> Cardinality(DOMAIN s.ops), userOps |-> Cardinality({i \in DOMAIN s.ops : s.ops[i].user}),
     userQ |-> Len(s.userQ), resubQ |-> Len(s.resubQ), hpQ |-> Len(s.hpQ), cur |-> B2I(s.cur # None),
     alloc |-> Cardinality(DOMAIN s.alloc), pendPub |-> Cardinality(DOMAIN s.pendPub), pendNon |-> Cardinality(DOMAIN s.pendNon),
     pwcOps |-> Len(s.pwcOps), tmo |-> Cardinality(s.tmos), qos2In |-> Cardinality(s.qos2In), unresolved |-> unresolved, pwc |-> B2I(s.pwc)]

----------------------------------------------------------------------------------------------------
\* the broker's own bookkeeping (reference broker of the harness)

InitEnv == [open |-> FALSE, conns |-> 0, keys |-> 0, ins |-> 0, resolved |-> {},
            owed |-> <<>>,             \* [type, pid, n, ans]: answers the broker owes / has given on this connection
            connectSeen |-> FALSE, connectFlushed |-> FALSE, connackSent |-> FALSE, connectClean |-> FALSE,
            hasSession |-> FALSE, allLegal |-> TRUE, haltSteps |-> 0,
            lastIn |-> [q1 |-> 0, q2 |-> 0], nextIn |-> 1, pubrecSeen |-> {}, aliasBound |-> FALSE, tamIn |-> 0,
            \* ghost: the server bound an inbound alias on an EARLIER connection.  Nothing in the specification depends on it; it keeps
            \* the histories "alias bound before the reconnect" and "never bound" apart in the view, so that both are exported as scripts -
            \* an implementation that wrongly keeps connection-scoped state across a reconnect tells them apart although the specification does not
            prevBound |-> FALSE]

OweFor(e) == CASE e.type = "CONNECT" -> <<[type |-> "CONNACK", pid |-> 0, n |-> 0, ans |-> FALSE]>>
               [] e.type = "PUBLISH" /\ e.qos = 1 -> <<[type |-> "PUBACK", pid |-> e.pid, n |-> 0, ans |-> FALSE]>>
               [] e.type = "PUBLISH" /\ e.qos = 2 -> <<[type |-> "PUBREC", pid |-> e.pid, n |-> 0, ans |-> FALSE]>>
               [] e.type = "PUBREL" -> <<[type |-> "PUBCOMP", pid |-> e.pid, n |-> 0, ans |-> FALSE]>>
               [] e.type = "SUBSCRIBE" -> <<[type |-> "SUBACK", pid |-> e.pid, n |-> e.n, ans |-> FALSE]>>
               [] e.type = "UNSUBSCRIBE" -> <<[type |-> "UNSUBACK", pid |-> e.pid, n |-> e.n, ans |-> FALSE]>>
               [] e.type = "PINGREQ" -> <<[type |-> "PINGRESP", pid |-> 0, n |-> 0, ans |-> FALSE]>>
               [] OTHER -> <<>>

RECURSIVE BrokerSees(_, _)
BrokerSees(b, evs) ==
    IF evs = <<>> THEN b
    ELSE LET e == Head(evs)
             b2 == IF e.ev = "Tx" /\ e.partial = 0
                   THEN [b EXCEPT !.owed = @ \o OweFor(e),
                                  !.connectSeen = @ \/ e.type = "CONNECT",
                                  !.connectClean = IF e.type = "CONNECT" THEN e.clean = 1 ELSE @,
                                  !.pubrecSeen = IF e.type = "PUBREC" THEN @ \cup {e.pid} ELSE @]
                   ELSE IF e.ev = "Complete" THEN [b EXCEPT !.resolved = @ \cup {e.op}]
                   ELSE b
         IN BrokerSees(b2, Tail(evs))

Pending(b) == {i \in 1..Len(b.owed) : ~b.owed[i].ans /\ b.owed[i].type \notin {"CONNACK", "PINGRESP"}}
Answered(b) == {i \in 1..Len(b.owed) : b.owed[i].ans /\ b.owed[i].type \notin {"CONNACK", "PINGRESP"}}
MinOf(S) == CHOOSE x \in S : \A y \in S : x <= y
MaxOf(S) == CHOOSE x \in S : \A y \in S : x >= y

----------------------------------------------------------------------------------------------------
\* one step: engine result -> next state of everything

Blank == [type |-> "", pid |-> 0, rc |-> 0, codes |-> 0, sp |-> 0, rm |-> -1, ka |-> -1, tam |-> -1, mqos |-> -1, mps |-> -1,
          ret |-> -1, wild |-> -1, subid |-> -1, shared |-> -1, acid |-> "", sei |-> -1, qos |-> 0, dup |-> 0, topic |-> "", alias |-> -1, hash |-> 0]

Commit(r, pre, post, env2, decision) ==
    LET all == pre \o Ordered(r.evs) \o post
        env3 == BrokerSees(env2, r.evs)
    IN /\ es' = r.s
       /\ env' = [env3 EXCEPT !.haltSteps = IF es.st = "Halted" THEN 1 ELSE 0]
       /\ mon' = [n \in Which |-> M!MonFold(n, mon[n], all)]
       /\ last' = [res |-> r.res, evs |-> all]
       /\ hist' = Append(hist, decision)

Ev(s, name, fields) == [ev |-> name, run |-> 0, seq |-> 0, t |-> s.now] @@ fields

Now == es.now

\* -- application ----------------------------------------------------------------------------------

Submit(a) ==
    /\ env.keys < MaxOps
    /\ LET key == env.keys + 1
           attrs == [NoAttrs EXCEPT !.qos = a.qos, !.key = key, !.tmo = a.tmo, !.topic = a.topic, !.ualias = a.ualias,
                                    !.retain = a.retain, !.need = a.need, !.units = a.units, !.plen = a.plen, !.n = a.n]
           r == UserSubmit(es, Now, a.kind, attrs)
           sub == Ev(es, "Submit", [op |-> key, kind |-> a.kind, qos |-> a.qos, topic |-> a.topic, alias |-> a.ualias, entries |-> a.n,
                                    tmo |-> a.tmo, retain |-> B2I(a.retain), hash |-> key, len |-> IF a.plen >= 0 THEN a.plen ELSE 10, state |-> es.st, variant |-> a.need])
       IN Commit(r, <<sub>>, <<>>, [env EXCEPT !.keys = key],
                 [a |-> "Submit", kind |-> a.kind, qos |-> a.qos, tmo |-> IF a.tmo = None THEN -1 ELSE (a.tmo * 1000) \div TPS, retain |-> a.retain,
                  topic |-> a.topic, alias |-> a.ualias, entries |-> IF a.n = 0 THEN 1 ELSE a.n, variant |-> IF a.need \in {"none", "oversize"} THEN "" ELSE a.need,
                  size |-> IF a.plen >= 0 THEN a.plen ELSE IF a.need = "oversize" THEN 300 ELSE IF a.units > 1 THEN 28 ELSE 0])

UserDisc ==
    /\ "Disconnect" \in Others
    /\ LET r == UserDisconnect(es, Now)
       IN Commit(r, <<Ev(es, "UserDisconnect", <<>>)>>, <<>>, env, [a |-> "Disconnect"])

\* -- driver ---------------------------------------------------------------------------------------

OpenEv(r) == Ev(r.s, "Open", [conn |-> 0, deadline |-> Now + Deadline, result |-> r.res, state |-> r.s.st])

PermsOf(S) == LET D == 1..Cardinality(S) IN {f \in [D -> S] : \A i, j \in D : i # j => f[i] # f[j]}

Close ==
    /\ env.open
    \* the pending tables are hash maps: the close handling meets their entries in ANY order (the later sort must make it irrelevant)
    /\ \E po \in PermsOf(Range(es.pendPub)), no \in {SetToSortedSeq(Range(es.pendNon))} :
          LET r == ConnClosed(es, Now, po, no)
              part == Sub(r.evs, {"Tx"})
              rest == [r EXCEPT !.evs = SelectSeq(@, LAMBDA e : e.ev # "Tx")]
          IN Commit(rest, part \o <<Ev(r.s, "Close", [conn |-> 0, result |-> r.res, state |-> r.s.st])>>, <<>>,
                    [env EXCEPT !.open = FALSE, !.owed = <<>>], [a |-> "Close"])

Plans == {<<>>, <<"c">>, <<"f">>, <<"c", "c">>, <<"c", "f">>, <<"c", "c", "c">>, <<"c", "c", "f">>, <<"c", "c", "c", "c">>, <<"c", "c", "c", "f">>}

Svc(cap) ==
    /\ es.buf = 0 \/ cap = es.cap
    /\ Faithful => (LET ns == NextServiceTime(es, Now) IN ns # None /\ ns <= Now)
    /\ \E plan \in Plans :
          LET r == Service(es, Now, cap, plan, FALSE, {})
              out == r.s.buf - es.buf
              sv == Ev(es, "Service", [cap |-> cap, pre |-> es.buf, out |-> out, result |-> r.res, state |-> r.s.st, pwc |-> B2I(r.s.pwc)])
          IN /\ r.valid
             /\ Commit([s |-> r.s, res |-> r.res, evs |-> r.evs], <<sv>>, <<>>, env,
                       \* bytes for the harness: one unit holds any ordinary packet (a CONNECT with a one-character client id is 16 bytes, an
                       \* ordinary PUBLISH / SUBSCRIBE 9 - 12), two units hold a "big" one (about 38 bytes), three units hold everything
                       [a |-> "Service", cap |-> IF cap = 1 THEN 20 ELSE IF cap = 2 THEN 40 ELSE 4096])

WriteDone ==
    /\ es.pwc
    /\ LET r == WriteCompletion(es, Now)
           wd == Ev(es, "WriteDone", [result |-> r.res, state |-> r.s.st])
       IN Commit(r, <<wd>>, <<>>, [env EXCEPT !.connectFlushed = @ \/ (env.connectSeen /\ r.res = "ok")], [a |-> "WriteDone"])

\* work the driver must do before it lets time pass (faithful mode)
DriverBusy == LET ns == NextServiceTime(es, Now) IN es.pwc \/ (ns # None /\ ns <= Now)

Tick ==
    /\ Now < Horizon
    /\ Faithful => ~DriverBusy
    /\ es' = [es EXCEPT !.now = @ + 1]
    /\ UNCHANGED <<env, mon>>
    /\ last' = [res |-> "ok", evs |-> <<>>]
    /\ hist' = Append(hist, [a |-> "Advance", ms |-> 1000 \div TPS])

DoReset ==
    /\ "Reset" \in Others
    /\ LET r == Reset(es, Now, SetToSortedSeq(DOMAIN es.ops))
           unresolved == Cardinality({k \in 1..env.keys : k \notin (BrokerSees(env, r.evs)).resolved})
       IN Commit(r, <<Ev(r.s, "Reset", [state |-> r.s.st])>>, <<EvSnapshot(r.s, TRUE, unresolved)>>,
                 [env EXCEPT !.open = FALSE, !.owed = <<>>, !.hasSession = FALSE], [a |-> "Reset"])

\* -- broker ---------------------------------------------------------------------------------------

RxEv(s, p, res, legal, allLegal) ==
    Ev(s, "Rx", [conn |-> 0, type |-> p.type, pid |-> p.pid, rc |-> p.rc, codes |-> p.codes, sp |-> p.sp, rm |-> p.rm, ka |-> p.ka, tam |-> p.tam,
                 mqos |-> p.mqos, mps |-> p.mps, ret |-> p.ret, wild |-> p.wild, subid |-> p.subid, shared |-> p.shared, acid |-> p.acid, sei |-> p.sei,
                 qos |-> p.qos, dup |-> p.dup, topic |-> p.topic, alias |-> IF p.alias = -1 THEN 0 ELSE p.alias, hash |-> p.hash, result |-> res.res, state |-> res.s.st,
                 legal |-> B2I(legal), alllegal |-> B2I(allLegal), chunks |-> 1, decoded |-> IF p.type = "GARBAGE" THEN 0 ELSE 1])

Feed(p, legal, env2, decision) ==
    LET r == Recv(es, Now, p)
        al == env.allLegal /\ legal
    IN Commit(r, <<RxEv(es, p, r, legal, al)>>, <<>>, [env2 EXCEPT !.allLegal = al], decision)

Connack(c) ==
    /\ env.open
    /\ EarlyConnack \/ (env.connectSeen /\ env.connectFlushed /\ ~env.connackSent)
    /\ LET ok == c.rc = 0
           sp == c.sp = 1
           legal == env.connectSeen /\ env.connectFlushed /\ ~env.connackSent /\ (~sp \/ (~env.connectClean /\ env.hasSession)) /\ (~sp \/ ok)
           owed2 == IF env.connectSeen /\ ~env.connackSent
                    THEN [i \in 1..Len(env.owed) |-> IF env.owed[i].type = "CONNACK" THEN [env.owed[i] EXCEPT !.ans = TRUE] ELSE env.owed[i]]
                    ELSE env.owed
           env2 == [env EXCEPT !.owed = owed2,
                               !.connackSent = @ \/ legal,
                               !.hasSession = IF legal /\ ok THEN TRUE ELSE @,
                               !.pubrecSeen = IF legal /\ ok /\ ~sp THEN {} ELSE @,
                               \* a new session: the server's packet identifiers start over (an identifier of the lost session comes back with new content)
                               !.nextIn = IF legal /\ ok /\ ~sp THEN 1 ELSE @,
                               !.tamIn = es.cfg.tamIn]
           p == [Blank EXCEPT !.type = "CONNACK", !.sp = c.sp, !.rc = c.rc, !.rm = c.rm, !.ka = c.ka, !.tam = c.tam, !.mqos = c.mqos, !.mps = c.mps,
                              !.ret = c.ret, !.wild = c.wild, !.subid = c.subid, !.shared = c.shared, !.acid = c.acid]
       IN \* a legal session-present needs a session on the broker: only offer sp = 1 then (the adversarial case is covered by EarlyConnack)
          /\ (sp => (EarlyConnack \/ (~env.connectClean /\ env.hasSession)))
          /\ Feed(p, legal, env2, [a |-> "Connack", sp |-> sp, rm |-> c.rm, ka |-> c.ka, tam |-> c.tam, mqos |-> c.mqos, rc |-> c.rc, ret |-> c.ret,
                                   wild |-> c.wild, subid |-> c.subid, shared |-> c.shared, mps |-> c.mps, acid |-> c.acid])

WrongType(t) == CASE t = "PUBACK" -> "PUBCOMP" [] t = "PUBREC" -> "PUBACK" [] t = "PUBCOMP" -> "SUBACK" [] t = "SUBACK" -> "UNSUBACK" [] OTHER -> "PUBACK"

Ack(which, how) ==
    /\ env.open
    /\ LET pool == IF how = "dup" THEN Answered(env) ELSE Pending(env) IN
       /\ pool # {}
       /\ LET idx == IF which = "newest" THEN MaxOf(pool) ELSE MinOf(pool)
              o == env.owed[idx]
              inOrder == idx = MinOf(pool)
              isSub == o.type \in {"SUBACK", "UNSUBACK"}
              base == [Blank EXCEPT !.type = o.type, !.pid = o.pid, !.codes = IF isSub THEN o.n ELSE 0]
              mark == [env EXCEPT !.owed[idx].ans = TRUE]
              dec == [a |-> "Ack", which |-> which, as |-> how]
          IN CASE how = "normal" -> Feed(base, env.connackSent /\ inOrder, mark, dec)
               [] how = "fail" ->
                      Feed([base EXCEPT !.rc = IF isSub THEN 0 ELSE IF es.cfg.ver # 5 THEN 0 ELSE IF o.type = "PUBCOMP" THEN 146 ELSE 128],
                           env.connackSent /\ inOrder, mark, dec)
               \* MQTT 5: PUBACK / PUBREC may carry 0x10 "No matching subscribers" - a success code: the exchange goes on as usual
               [] how = "nomatch" ->
                      Feed([base EXCEPT !.rc = IF es.cfg.ver = 5 /\ o.type \in {"PUBACK", "PUBREC"} THEN 16 ELSE 0], env.connackSent /\ inOrder, mark, dec)
               [] how = "wrongtype" ->
                      LET t2 == WrongType(o.type)
                      IN Feed([base EXCEPT !.type = t2, !.codes = IF t2 \in {"SUBACK", "UNSUBACK"} THEN (IF o.n = 0 THEN 1 ELSE o.n) ELSE 0], FALSE, env, dec)
               [] how = "unknownid" -> Feed([base EXCEPT !.pid = IF o.pid = PidMax THEN 1 ELSE o.pid + 1], FALSE, env, dec)
               [] how = "dup" -> Feed(base, FALSE, env, dec)
               [] OTHER -> isSub /\ Feed([base EXCEPT !.codes = o.n + 1], FALSE, mark, dec)

InPub(ip) ==
    /\ env.open /\ env.ins < MaxIn
    /\ (ip.pid = -2 => (ip.qos = 1 /\ env.lastIn.q1 # 0) \/ (ip.qos = 2 /\ env.lastIn.q2 # 0))
    /\ LET id == IF ip.qos = 0 THEN 0
                 ELSE IF ip.pid = -2 THEN (IF ip.qos = 1 THEN env.lastIn.q1 ELSE env.lastIn.q2)
                 ELSE IF ip.pid > 0 THEN ip.pid ELSE env.nextIn
           aliasLegal == CASE ip.alias = "none" -> TRUE
                           [] ip.alias = "bind" -> es.cfg.ver = 5 /\ env.tamIn >= 1
                           [] ip.alias = "reuse" -> es.cfg.ver = 5 /\ env.aliasBound
                           [] OTHER -> FALSE
           p == [Blank EXCEPT !.type = "PUBLISH", !.qos = ip.qos, !.pid = id, !.dup = B2I(ip.dup), !.hash = env.ins + 100,
                              !.topic = IF ip.alias \in {"reuse", "unknown"} THEN "" ELSE ip.topic,
                              !.alias = CASE ip.alias \in {"bind", "reuse"} -> 1 [] ip.alias = "unknown" -> 2 [] ip.alias = "zero" -> 0
                                          [] ip.alias = "range" -> es.cfg.tamIn + 1 [] OTHER -> -1]
           env2 == [env EXCEPT !.ins = @ + 1,
                               !.nextIn = IF ip.qos > 0 /\ ip.pid = -1 THEN @ + 1 ELSE @,
                               !.lastIn = IF ip.qos = 1 THEN [@ EXCEPT !.q1 = id] ELSE IF ip.qos = 2 THEN [@ EXCEPT !.q2 = id] ELSE @,
                               !.aliasBound = @ \/ (ip.alias = "bind" /\ env.tamIn >= 1)]
       IN /\ (es.cfg.ver = 5 \/ ip.alias = "none")
          /\ Feed(p, env.connackSent /\ aliasLegal, env2,
                  [a |-> "InPub", qos |-> ip.qos, pid |-> ip.pid, dup |-> ip.dup, alias |-> ip.alias, topic |-> ip.topic])

Other(what) ==
    /\ env.open
    /\ CASE what = "Pingresp" ->
                LET idx == {i \in 1..Len(env.owed) : env.owed[i].type = "PINGRESP" /\ ~env.owed[i].ans}
                    env2 == IF idx = {} THEN env ELSE [env EXCEPT !.owed[MinOf(idx)].ans = TRUE]
                IN Feed([Blank EXCEPT !.type = "PINGRESP"], idx # {} /\ env.connackSent, env2, [a |-> "Pingresp"])
         [] what = "ServerDisconnect" -> Feed([Blank EXCEPT !.type = "DISCONNECT", !.rc = 139], env.connackSent /\ es.cfg.ver = 5, env, [a |-> "ServerDisconnect"])
         [] what = "Auth" -> Feed([Blank EXCEPT !.type = "AUTH", !.rc = 24], FALSE, env, [a |-> "Auth"])
         [] what = "InPubrel" ->
                /\ env.pubrecSeen # {}
                /\ LET id == MinOf(env.pubrecSeen)
                   IN Feed([Blank EXCEPT !.type = "PUBREL", !.pid = id], env.connackSent, [env EXCEPT !.pubrecSeen = @ \ {id}], [a |-> "InPubrel", pid |-> -1])
         [] what = "InPubrelUnknown" ->
                \* answered with a PUBCOMP each time: counted as inbound traffic so that the instance stays finite
                /\ env.ins < MaxIn
                /\ Feed([Blank EXCEPT !.type = "PUBREL", !.pid = PidMax], FALSE, [env EXCEPT !.ins = @ + 1], [a |-> "InPubrel", pid |-> -3])
         [] what = "Garbage" ->
                LET r == RecvGarbage(es, Now)
                    p == [Blank EXCEPT !.type = "GARBAGE"]
                IN Commit(r, <<RxEv(es, p, r, FALSE, FALSE)>>, <<>>, [env EXCEPT !.allLegal = FALSE], [a |-> "Garbage", n |-> 3])
         [] OTHER -> FALSE

----------------------------------------------------------------------------------------------------

Init == \E cfg \in CfgSet :
          /\ TLCSet(1, {})
          /\ es = InitState(cfg)
          /\ env = InitEnv
          /\ mon = [n \in Which |-> M!MonStep(n, M!MonInit(n), EvCfg(cfg))]
          /\ last = [res |-> "ok", evs |-> <<>>]
          /\ hist = <<[cfg |-> cfg]>>

\* the Open event is logged after the call
OpenStep ==
    /\ ~env.open /\ env.conns < MaxConns
    /\ LET r == ConnOpened(es, Now, Now + Deadline)
           ok == r.res = "ok"
           env2 == IF ok THEN [env EXCEPT !.open = TRUE, !.conns = @ + 1, !.owed = <<>>, !.connectSeen = FALSE, !.connectFlushed = FALSE,
                                          !.connackSent = FALSE, !.aliasBound = FALSE, !.prevBound = @ \/ env.aliasBound]
                   ELSE env
       IN Commit(r, <<OpenEv(r)>>, <<>>, env2, [a |-> "Open", deadline |-> (Deadline * 1000) \div TPS])

\* Once the engine has halted (an entry point returned an error) every further event is refused until the
\* connection is closed.  One step of every kind is explored from the halted state (that is what "accepts no
\* more traffic" quantifies over); after it only Close / Open / Reset continue the behaviour.
Live == es.st # "Halted" \/ env.haltSteps < 1

Next ==
    \/ Live /\ \E a \in SubmitSet : Submit(a)
    \/ Live /\ UserDisc
    \/ OpenStep
    \/ Close
    \/ Live /\ \E cap \in Caps : Svc(cap)
    \/ Live /\ WriteDone
    \/ Live /\ Tick
    \/ DoReset
    \/ Live /\ \E c \in ConnackSet : Connack(c)
    \/ Live /\ \E w \in AckWhich, h \in AckHows : Ack(w, h)
    \/ Live /\ \E ip \in InPubSet : InPub(ip)
    \/ Live /\ \E o \in Others : Other(o)

Spec == Init /\ [][Next]_vars

----------------------------------------------------------------------------------------------------
\* invariants.  A failing invariant first prints the decision history that led there, so that the
\* counterexample can be replayed against the real code before anything is concluded from it.
Guard(name, ok) == ok \/ (PrintT(<<"CEX", name, ToJson(hist)>>) /\ FALSE)

\* C11: no event order reaches a panic site
NoPanic == Guard("NoPanic", ~IsPanic(last.res))

\* the monitors accept every step
MonitorsQuiet == Guard("MonitorsQuiet", \A n \in Which : \A i \in 1..Len(mon[n].errs) : mon[n].errs[i].rule \in KnownRules)

UserOpsTracked == Guard("UserOpsTracked", UserOpsTrackedIn(es))
NoLiveIdTwiceInAQueue == Guard("NoLiveIdTwiceInAQueue", NoLiveIdTwiceIn(es))
AllocConsistent == Guard("AllocConsistent", AllocConsistentIn(es))
PendingBound == Guard("PendingBound", PendingBoundIn(es))
ReceiveMaximumRespected == Guard("ReceiveMaximumRespected", ReceiveMaximumIn(es))
NoStrandedWork == Guard("NoStrandedWork", NoStrandedWorkIn(es))

\* non-vacuity: every (decision, result) pair and a few deep situations are reported once per worker
Witnesses ==
    LET d == hist[Len(hist)] IN
    (IF Len(hist) > 1 THEN {<<d.a, last.res>>} ELSE {})
    \cup (IF es.st = "Disconnected" /\ es.resubQ # <<>> THEN {<<"resubmit-queue-while-offline">>} ELSE {})
    \cup (IF \E id \in DOMAIN es.ops : es.ops[id].dup /\ es.ops[id].pubrel /\ es.cur = id /\ es.enc > 0 /\ es.enc < es.encTot THEN {<<"resumed-pubrel-half-encoded">>} ELSE {})
    \cup (IF es.nextPid < Cardinality(DOMAIN es.alloc) + 1 /\ DOMAIN es.alloc # {} THEN {<<"packet-id-cursor-wrapped">>} ELSE {})
    \cup (IF es.st = "Connected" /\ es.slow > 0 THEN {<<"slow-start-active">>} ELSE {})
    \cup (IF es.st = "Connected" /\ es.settings.known /\ Cardinality(DOMAIN es.pendPub) = es.settings.rm THEN {<<"at-receive-maximum">>} ELSE {})
    \cup (IF \E e \in SeqToSet(last.evs) : e.ev = "Complete" /\ e.ok = 1 /\ env.conns >= 2 THEN {<<"success-after-reconnect">>} ELSE {})
    \cup (IF \E e \in SeqToSet(last.evs) : e.ev = "Complete" /\ e.err = "AckTimeout" THEN {<<"ack-timeout-fired">>} ELSE {})
    \cup (IF \E e \in SeqToSet(last.evs) : e.ev = "Complete" /\ e.err = "MaxInterruptedRetriesExceeded" THEN {<<"retry-limit-fired">>} ELSE {})
    \cup (IF \E e \in SeqToSet(last.evs) : e.ev = "Tx" /\ e.type = "PUBLISH" /\ e.dup = 1 THEN {<<"retransmission">>} ELSE {})
    \cup (IF \E e \in SeqToSet(last.evs) : e.ev = "Tx" /\ e.type = "PUBLISH" /\ e.topic = "" THEN {<<"alias-used">>} ELSE {})
    \cup (IF \E e \in SeqToSet(last.evs) : e.ev = "Tx" /\ e.type = "PINGREQ" THEN {<<"ping-sent">>} ELSE {})
Witness == \A w \in Witnesses : (w \in TLCGet(1)) \/ (PrintT(<<"WITNESS", w>>) /\ TLCSet(1, TLCGet(1) \cup {w}))

\* script export: decision histories (BFS-shortest) of a sample of the states at or below the chosen depth
Export == (ExportDepth > 0 /\ Len(hist) > ExportDepth /\ TLCGet("stats").distinct % ExportEvery = 0) => PrintT(<<"SCRIPT", ToJson(hist)>>)
\* Export per TRANSITION (an action constraint, evaluated on every step TLC generates, also those that lead to a state already
\* seen): with the history hidden from the view a state keeps the first history that reached it, so histories that end in the
\* same state as a shorter one - an illegal packet after a long preparation ends in the same Halted state as the same packet
\* sent at once - would never be exported by a state invariant.  Every one-step extension of a first history is.
ExportEdge == (ExportDepth > 0 /\ Len(hist') > ExportDepth /\ TLCGet("stats").generated % ExportEvery = 0) => PrintT(<<"SCRIPT", ToJson(hist')>>)
=============================================================================
