SPECIFICATION Spec
CONSTANTS MaxReq = 3  MaxAttempts = 3
INVARIANT WellFormed
PROPERTY StopStops
CHECK_DEADLOCK FALSE
