---------------------------- MODULE EngineTrace ----------------------------
(***************************************************************************************************
 Code -> spec conformance: replays executions recorded from the real protocol engine against
 Engine.tla.  The trace (ndjson, path in the environment variable TRACE, produced by the harness
 with --state) holds, per run: a Cfg header; one event per entry-point call with its arguments and
 result; the events the call produced (Complete, Tx, ...); and a full projection of the engine's
 state ("St") after every call.

 For each entry-point event the corresponding Engine.tla operator is applied to the specification
 state; its result must equal the recorded result, the completions and packets it predicts must be
 the ones recorded, and at the next St event the specification state must project onto the
 recorded state field by field.  Where the code has freedom the specification does not resolve
 (HashMap iteration order at connection close, how far the encoder got), the recorded values are
 passed to the operator as arguments, and the operator checks them for admissibility.

 Every state in which the real engine was observed is also evaluated against the state invariants
 of Engine.tla (the ones TLC proves over the bounded instances).

 A mismatch ("drift") ends the examination of that run - the next Cfg event resynchronises - and
 is listed in the verdict together with invariant breaches.  The whole file is always consumed.
 ***************************************************************************************************)
EXTENDS Engine, Json, IOUtils, TLCExt

Rec == ndJsonDeserialize(IOEnv.TRACE)

VARIABLES l,       \* position in Rec
          es,      \* specification state
          pend,    \* predicted completions / packets of the last call not yet seen in the trace
          skip,    \* the current run is no longer examined
          out      \* [drift, inv, calls, states]: accumulated verdict

vars == <<l, es, pend, skip, out>>

----------------------------------------------------------------------------------------------------
\* reading events

CfgOf(e) == [policy |-> e.policy, drain |-> e.drain, retries |-> e.retries, ver |-> e.ver, pingTmo |-> e.pingTmo, ka |-> e.ka,
             rejoin |-> e.rejoin, resolver |-> e.resolverKind, lruMax |-> e.lruMax, cid |-> e.cid, tamIn |-> e.tamIn, sei |-> e.sei,
             connectUnits |-> 1]

NeedOf(e) == IF e.variant \in {"wild", "shared", "sharedwild", "badfilter", "nolocalshared"} THEN e.variant ELSE "none"

AttrsOf(e) == [NoAttrs EXCEPT !.qos = IF e.kind = "pub" THEN e.qos ELSE 0, !.key = e.op, !.tmo = e.tmo, !.topic = e.topic, !.ualias = e.alias,
                              !.retain = e.retain = 1, !.need = NeedOf(e), !.n = e.entries,
                              \* a publish that carries nothing but topic and payload: its size on the wire is predicted exactly
                              !.plen = IF e.kind = "pub" /\ e.variant = "" THEN e.len ELSE -1]

PacketOf(e) == [type |-> e.type, pid |-> e.pid, rc |-> e.rc, codes |-> e.codes, sp |-> e.sp, rm |-> e.rm, ka |-> e.ka, tam |-> e.tam, mqos |-> e.mqos,
                mps |-> e.mps, ret |-> e.ret, wild |-> e.wild, subid |-> e.subid, shared |-> e.shared, acid |-> e.acid, sei |-> e.sei,
                qos |-> e.qos, dup |-> e.dup, topic |-> e.topic, alias |-> IF e.aliasp = 1 THEN e.alias ELSE -1, hash |-> e.hash]

Modelled == {"CONNACK", "PUBLISH", "PUBACK", "PUBREC", "PUBREL", "PUBCOMP", "SUBACK", "UNSUBACK", "PINGRESP", "DISCONNECT", "AUTH"}

PlanOf(e) == [i \in 1..e.nfull |-> "c"] \o (IF e.partial = 1 THEN <<"f">> ELSE <<>>)

IsCall(e) == e.ev \in {"Submit", "UserDisconnect", "Open", "Close", "Service", "WriteDone", "Rx", "Reset", "NextSvc", "Cursor"}

----------------------------------------------------------------------------------------------------
\* projection of the specification state onto the recorded one

KindNo(k) == CASE k = "connect" -> 1 [] k = "pub" -> 3 [] k = "puback" -> 4 [] k = "pubrec" -> 5 [] k = "pubcomp" -> 7
               [] k = "sub" -> 8 [] k = "unsub" -> 10 [] k = "pingreq" -> 12 [] OTHER -> 14
B(b) == IF b THEN 1 ELSE 0
ProjOps(s) == {<<id, KindNo(s.ops[id].kind), s.ops[id].qos, B(s.ops[id].dup), s.ops[id].pid, B(s.ops[id].pubrel), B(s.ops[id].user), s.ops[id].slowv, s.ops[id].intr>> : id \in DOMAIN s.ops}
ProjFn(f) == {<<p, f[p]>> : p \in DOMAIN f}

Mismatch(s, e) ==        \* the set of field names on which the specification and the code disagree
    {n \in {"state", "pwc", "ops", "userQ", "resubQ", "hpQ", "cur", "qos2In", "alloc", "pendPub", "pendNon", "pwcOps", "tmos",
            "nextOp", "nextPid", "hasConn", "nextPing", "pingTmo", "connackTmo", "slow"} :
        ~ CASE n = "state" -> s.st = e.state
            [] n = "pwc" -> B(s.pwc) = e.pwc
            [] n = "ops" -> ProjOps(s) = SeqToSet(e.ops)
            [] n = "userQ" -> s.userQ = e.userQ
            [] n = "resubQ" -> s.resubQ = e.resubQ
            [] n = "hpQ" -> s.hpQ = e.hpQ
            [] n = "cur" -> s.cur = e.cur
            [] n = "qos2In" -> s.qos2In = SeqToSet(e.qos2In)
            [] n = "alloc" -> ProjFn(s.alloc) = SeqToSet(e.alloc)
            [] n = "pendPub" -> ProjFn(s.pendPub) = SeqToSet(e.pendPub)
            [] n = "pendNon" -> ProjFn(s.pendNon) = SeqToSet(e.pendNon)
            [] n = "pwcOps" -> s.pwcOps = e.pwcOps
            [] n = "tmos" -> {<<r.id, r.at>> : r \in s.tmos} = SeqToSet(e.tmos)
            [] n = "nextOp" -> s.nextOp = e.nextOp
            [] n = "nextPid" -> s.nextPid = e.nextPid
            [] n = "hasConn" -> B(s.hasConn) = e.hasConn
            [] n = "nextPing" -> s.nextPing = e.nextPing
            [] n = "pingTmo" -> s.pingTmo = e.pingTmo
            [] n = "connackTmo" -> s.connackTmo = e.connackTmo
            [] OTHER -> s.slow = e.slow}

BrokenInvariants(s) ==
    {n \in {"UserOpsTracked", "NoLiveIdTwice", "AllocConsistent", "PendingBound", "ReceiveMaximum", "NoStrandedWork"} :
        ~ CASE n = "UserOpsTracked" -> UserOpsTrackedIn(s)
            [] n = "NoLiveIdTwice" -> NoLiveIdTwiceIn(s)
            [] n = "AllocConsistent" -> AllocConsistentIn(s)
            [] n = "PendingBound" -> PendingBoundIn(s)
            [] n = "ReceiveMaximum" -> ReceiveMaximumIn(s)
            [] OTHER -> NoStrandedWorkIn(s)}

\* The structural invariants are also evaluated on the state the code was OBSERVED in, whether or not the specification
\* can follow the code there: a change that corrupts the engine's tables is a breach of the property, not only a drift.
KindName(k) == CASE k = 1 -> "connect" [] k = 3 -> "pub" [] k = 4 -> "puback" [] k = 5 -> "pubrec" [] k = 7 -> "pubcomp"
                 [] k = 8 -> "sub" [] k = 10 -> "unsub" [] k = 12 -> "pingreq" [] OTHER -> "disconnect"
PairsToFn(q) == [p \in {q[i][1] : i \in 1..Len(q)} |-> (CHOOSE x \in SeqToSet(q) : x[1] = p)[2]]
ObsState(e) ==
    [ops |-> [id \in {e.ops[i][1] : i \in 1..Len(e.ops)} |->
                 LET t == CHOOSE x \in SeqToSet(e.ops) : x[1] = id
                 IN [kind |-> KindName(t[2]), qos |-> t[3], dup |-> t[4] = 1, pid |-> t[5], pubrel |-> t[6] = 1, user |-> t[7] = 1]],
     userQ |-> e.userQ, resubQ |-> e.resubQ, hpQ |-> e.hpQ, cur |-> e.cur, pwcOps |-> e.pwcOps,
     alloc |-> PairsToFn(e.alloc), pendPub |-> PairsToFn(e.pendPub), pendNon |-> PairsToFn(e.pendNon)]
BrokenObserved(e) ==
    LET s == ObsState(e) IN
    {n \in {"UserOpsTracked", "NoLiveIdTwice", "AllocConsistent", "PendingBound"} :
        ~ CASE n = "UserOpsTracked" -> UserOpsTrackedIn(s)
            [] n = "NoLiveIdTwice" -> NoLiveIdTwiceIn(s)
            [] n = "AllocConsistent" -> AllocConsistentIn(s)
            [] OTHER -> PendingBoundIn(s)}

----------------------------------------------------------------------------------------------------
\* predictions of a call, as comparable tuples

Pred(evs) ==
    LET c == SelectSeq(evs, LAMBDA x : x.ev = "Complete" \/ (x.ev = "Tx" /\ x.partial = 0))
    IN [i \in 1..Len(c) |-> IF c[i].ev = "Complete" THEN <<"Complete", c[i].op, c[i].ok, c[i].err>>
                            ELSE IF c[i].type = "PUBLISH" /\ c[i].exact = 1 THEN <<"Tx", c[i].type, c[i].pid, c[i].dup, c[i].alias, c[i].size>>
                            ELSE <<"Tx", c[i].type, c[i].pid, c[i].dup>>]

\* a PUBLISH whose size the specification predicts exactly must match in alias and size as well
Seen(e) == IF e.ev = "Complete" THEN <<"Complete", e.op, e.ok, e.err>> ELSE <<"Tx", e.type, e.pid, e.dup>>
SeenExact(e) == IF e.ev = "Tx" /\ e.type = "PUBLISH" THEN <<"Tx", e.type, e.pid, e.dup, e.alias, e.size>> ELSE Seen(e)

RemoveFirst(q, x) ==
    LET idx == {i \in 1..Len(q) : q[i] = x}
    IN IF idx = {} THEN q
       ELSE LET i == CHOOSE j \in idx : \A k \in idx : j <= k IN SubSeq(q, 1, i - 1) \o SubSeq(q, i + 1, Len(q))

----------------------------------------------------------------------------------------------------

Drift(e, what, detail) == [out EXCEPT !.drift = Append(@, [run |-> e.run, seq |-> e.seq, what |-> what, detail |-> detail])]

\* applying a call: [s, res, evs, ok]  (ok = FALSE: the recorded arguments are not admissible for the specification)
Apply(e) ==
    LET adm(r) == [s |-> r.s, res |-> r.res, evs |-> r.evs, ok |-> TRUE] IN
    CASE e.ev = "Submit" -> adm(UserSubmit(es, e.t, e.kind, AttrsOf(e)))
      [] e.ev = "UserDisconnect" -> adm(UserDisconnect(es, e.t))
      [] e.ev = "Open" -> adm(ConnOpened(es, e.t, e.deadline))
      [] e.ev = "Close" ->
             IF "po" \in DOMAIN e /\ ClosePubOrderOk(es, e.po) /\ CloseNonOrderOk(es, e.no) THEN adm(ConnClosed(es, e.t, e.po, e.no))
             ELSE [s |-> es, res |-> "?", evs |-> <<>>, ok |-> FALSE]
      [] e.ev = "Service" ->
             LET r == Service(es, e.t, 0, PlanOf(e), e.out > 0, SeqToSet(e.vfail))
             IN [s |-> r.s, res |-> r.res, evs |-> r.evs, ok |-> r.valid]
      [] e.ev = "WriteDone" -> adm(WriteCompletion(es, e.t))
      \* (instrument) the harness placed the allocator's cursor: a position the engine reaches by itself after enough operations
      [] e.ev = "Cursor" -> [s |-> [es EXCEPT !.nextPid = e.v, !.now = e.t], res |-> "ok", evs |-> <<>>, ok |-> TRUE]
      [] e.ev = "Reset" -> adm(Reset(es, e.t, SetToSortedSeq(DOMAIN es.ops)))
      [] e.ev = "Rx" ->
             IF e.decoded = 1 /\ e.type \in Modelled THEN adm(Recv(es, e.t, PacketOf(e)))
             ELSE \* bytes the specification does not interpret: either they were an incomplete / harmless fragment, or the engine refused them
                  IF e.result = "ok" THEN [s |-> [es EXCEPT !.now = e.t], res |-> "ok", evs |-> <<>>, ok |-> TRUE]
                  ELSE LET g == RecvGarbage(es, e.t) IN [s |-> g.s, res |-> e.result, evs |-> <<>>, ok |-> TRUE]
      [] OTHER -> [s |-> [es EXCEPT !.now = e.t], res |-> "ok", evs |-> <<>>, ok |-> TRUE]      \* NextSvc

Step(e) ==
    IF e.ev = "Cfg" THEN
        /\ es' = InitState(CfgOf(e)) /\ pend' = <<>> /\ skip' = FALSE
        /\ out' = [out EXCEPT !.runs = @ + 1]
    ELSE IF skip THEN
        \* the run is no longer replayed, but the states the code passes through are still judged (each invariant reported once per run)
        IF e.ev = "St" THEN
            LET fresh == BrokenObserved(e) \ UNION {out.inv[i].broken : i \in {j \in 1..Len(out.inv) : out.inv[j].run = e.run}} IN
            IF fresh # {} THEN /\ out' = [out EXCEPT !.inv = Append(@, [run |-> e.run, seq |-> e.seq, broken |-> fresh])] /\ UNCHANGED <<es, pend, skip>>
            ELSE UNCHANGED <<es, pend, skip, out>>
        ELSE UNCHANGED <<es, pend, skip, out>>
    ELSE IF IsCall(e) THEN
        IF pend # <<>> THEN
            /\ out' = Drift(e, "predicted-not-observed", ToString(pend)) /\ skip' = TRUE /\ UNCHANGED <<es, pend>>
        ELSE IF e.ev = "NextSvc" THEN
            LET ns == NextServiceTime(es, e.t) IN
            IF ns # e.at THEN /\ out' = Drift(e, "next-service-time", ToString(<<ns, e.at>>)) /\ skip' = TRUE /\ UNCHANGED <<es, pend>>
            ELSE /\ es' = [es EXCEPT !.now = e.t] /\ out' = [out EXCEPT !.calls = @ + 1] /\ UNCHANGED <<pend, skip>>
        ELSE LET r == Apply(e) IN
            IF ~r.ok THEN /\ out' = Drift(e, "arguments-not-admissible", e.ev) /\ skip' = TRUE /\ UNCHANGED <<es, pend>>
            ELSE IF IsPanic(r.res) THEN /\ out' = Drift(e, "specification-predicts-panic", r.res) /\ skip' = TRUE /\ UNCHANGED <<es, pend>>
            ELSE IF "result" \in DOMAIN e /\ r.res # e.result THEN
                /\ out' = Drift(e, "result", ToString(<<r.res, e.result>>)) /\ skip' = TRUE /\ UNCHANGED <<es, pend>>
            ELSE /\ es' = r.s /\ pend' = Pred(r.evs) /\ UNCHANGED skip
                 /\ out' = [out EXCEPT !.calls = @ + 1,
                                       !.wit = @ \cup {<<e.ev, w>> : w \in (IF e.ev \in {"Close", "Rx", "Reset"} THEN StateWitnesses(es) ELSE {})}
                                                \cup {<<e.ev, r.res>>}
                                                \cup (IF e.ev = "Rx" THEN {<<"Rx", e.type, r.res>>} ELSE {})]
    ELSE IF e.ev = "Complete" \/ (e.ev = "Tx" /\ e.partial = 0) THEN
        IF \E i \in 1..Len(pend) : pend[i] = SeenExact(e) THEN /\ pend' = RemoveFirst(pend, SeenExact(e)) /\ UNCHANGED <<es, skip, out>>
        ELSE IF \E i \in 1..Len(pend) : pend[i] = Seen(e) THEN /\ pend' = RemoveFirst(pend, Seen(e)) /\ UNCHANGED <<es, skip, out>>
        ELSE /\ out' = Drift(e, "observed-not-predicted", ToString(Seen(e))) /\ skip' = TRUE /\ UNCHANGED <<es, pend>>
    ELSE IF e.ev = "St" THEN
        LET mm == Mismatch(es, e) IN
        IF mm # {} THEN /\ out' = LET bo == BrokenObserved(e) IN
                                   [Drift(e, "state", ToString(mm)) EXCEPT !.inv = IF bo = {} THEN @ ELSE Append(@, [run |-> e.run, seq |-> e.seq, broken |-> bo])]
                        /\ skip' = TRUE /\ UNCHANGED <<es, pend>>
        ELSE LET bi == BrokenInvariants(es) IN
             /\ out' = [out EXCEPT !.states = @ + 1, !.wit = @ \cup {<<"St", w>> : w \in StateWitnesses(es)},
                                   !.inv = IF bi = {} THEN @ ELSE Append(@, [run |-> e.run, seq |-> e.seq, broken |-> bi])]
             /\ skip' = (bi # {})
             /\ UNCHANGED <<es, pend>>
    ELSE IF e.ev = "Panic" THEN /\ skip' = TRUE /\ UNCHANGED <<es, pend, out>>     \* the code panicked; the monitors (C11) report that
    ELSE UNCHANGED <<es, pend, skip, out>>

Init == /\ l = 1
        /\ es = InitState([policy |-> "All", drain |-> "None", retries |-> None, ver |-> 5, pingTmo |-> 0, ka |-> 0, rejoin |-> "PostSuccess",
                           resolver |-> "null", lruMax |-> 0, cid |-> "", tamIn |-> 0, sei |-> 0, connectUnits |-> 1])
        /\ pend = <<>> /\ skip = TRUE
        /\ out = [drift |-> <<>>, inv |-> <<>>, calls |-> 0, states |-> 0, runs |-> 0, wit |-> {}]

Next == /\ l <= Len(Rec)
        /\ l' = l + 1
        /\ Step(Rec[l])

Spec == Init /\ [][Next]_vars

Verdict == l = Len(Rec) + 1 => PrintT(<<"VERDICT", ToJson([events |-> Len(Rec), runs |-> out.runs, calls |-> out.calls, states |-> out.states,
                                                              drift |-> out.drift, inv |-> out.inv, wit |-> out.wit])>>)
Consumed == TLCGet("stats").diameter = Len(Rec) + 1
=============================================================================
