------------------------------- MODULE Engine -------------------------------
(***************************************************************************************************
 Implementation-shaped specification of gneiss-mqtt's sans-IO protocol engine
 (gneiss-mqtt/src/protocol.rs, struct ProtocolState).

 One operator per entry point / critical section of the code, written as a pure function from an
 engine state record to a result [s, res, evs]:

     UserSubmit, UserDisconnect          handle_user_event
     ConnOpened, ConnClosed              handle_network_event (ConnectionOpened / ConnectionClosed)
     WriteCompletion                     handle_network_event (WriteCompletion)
     Recv                                handle_network_event (IncomingData), one decoded packet
     RecvGarbage                         handle_network_event (IncomingData), decode failure
     Service                             service
     NextServiceTime                     get_next_service_timepoint
     Reset                               reset

 The state record uses the code's own containers (three queues with multiplicity, the pending
 tables, the allocated-id table, the timeout heap, current operation, write-completion list).
 The specification follows the code as it is, including its tolerance of stale ids in queues and
 its panics (`assert!`, `unwrap`, `panic!`), which are explicit "PANIC:<site>" results so that
 "can any event order reach a panic" is a reachability question.

 Named deviations from the code
   * Bytes are not modelled.  Encoding progress is an explicit `plan` argument of Service: the
     sequence of outcomes ("c" = this packet was completely encoded, "f" = the buffer filled up
     first) of the encode attempts made by that call.  With UnitsOn the plan is checked against a
     small unit model of the buffer (each packet has 1..n units, the buffer `cap` units), which is
     what model checking uses; with UnitsOn = FALSE the plan is free and trace validation infers
     it from the recorded post-state.
   * HashMap iteration orders (connection-closed handling, reset) are explicit arguments.
   * Time is an integer number of ticks; TPS ticks make one second.
   * Packet content is reduced to what the engine's control flow reads (kind, qos, retain, the
     capability a packet needs from the server, a size class) plus opaque identity (key, topic).
   * The in-place deque sort at CONNACK (sort_operation_deque) is modelled as a full sort.
 ***************************************************************************************************)
EXTENDS Naturals, Integers, Sequences, FiniteSets, TLC

\* Defect switches (EngDefects; each names a slip the properties must exclude - tools/mcconf.py ENGINE_DEFECTS runs a bounded
\* instance with it set and TLC must refute the property named):
\*   "validate-before-alias"            C16  send-time size check made before the alias resolution the packet is encoded with
\*   "pubrec-nomatch-terminal"          C04  any PUBREC reason code other than Success ends a QoS 2 publish (0x10 is not a failure)
\*   "alloc-cleared-on-every-connack"   C06  the allocated-id table is emptied on a resumed session too
\*   "qos2-bypasses-receive-maximum"    C09  the receive-maximum gate only looks at QoS 1
\*   "resubmit-unsorted"                C10  the retransmission queue keeps the order the close handling left it in
\*   "ping-pushout-uses-requested-keep-alive"   C14  an acknowledged operation pushes the next ping out by the keep-alive the client asked for, not the negotiated one
\*   "settings-wiped-at-open"                   C07  the negotiated settings (with the server-assigned client id) are forgotten when the next connection opens
\*   "policy-before-inflight-exceptions"        C15  a half-written retransmission / PUBREL meets the offline policy at disconnection like a fresh operation
\*   "interruptions-counted-when-bound"         C18  an operation that merely holds a packet id (not sent on this connection) counts as interrupted
\*   "timer-dropped-while-write-pending"        C08  while a write is outstanding the reported service time forgets the ack timeouts
\*   "inbound-aliases-survive-resumed-session"  C17  the inbound alias table is only forgotten when the session is
\*   "qos2in-kept-when-nothing-in-flight"       C05  a lost session forgets the unreleased inbound QoS 2 ids only if something was in flight
CONSTANTS PidMax,      \* packet identifiers are 1..PidMax (65535 in the code)
          TPS,         \* ticks per second
          UnitsOn,     \* TRUE: check Service plans against the unit model of the buffer
          EngDefects   \* defect switches (empty for the code as it is): bounded instances with one of them set must be refuted

None == -1             \* "absent" for ids and times (all ids and times are >= 0)

----------------------------------------------------------------------------------------------------
\* generic helpers

Range(f) == {f[x] : x \in DOMAIN f}
SeqToSet(q) == {q[i] : i \in 1..Len(q)}
Min2(a, b) == IF a <= b THEN a ELSE b
EmptyFn == [x \in {} |-> 0]
FnPut(f, k, v) == [x \in (DOMAIN f) \cup {k} |-> IF x = k THEN v ELSE f[x]]
FnDrop(f, K) == [x \in (DOMAIN f) \ K |-> f[x]]
Cons(x, q) == <<x>> \o q
SelectSeqP(q, P(_)) == SelectSeq(q, P)

\* stable insertion sort of a sequence of naturals, keeping duplicates
RECURSIVE InsertSorted(_, _)
InsertSorted(q, x) == IF q = <<>> THEN <<x>>
                      ELSE IF x < Head(q) THEN Cons(x, q)
                      ELSE Cons(Head(q), InsertSorted(Tail(q), x))
RECURSIVE SortIds(_)
SortIds(q) == IF q = <<>> THEN <<>> ELSE InsertSorted(SortIds(Tail(q)), Head(q))

IsPermutationOf(q, S) == Len(q) = Cardinality(S) /\ SeqToSet(q) = S

\* a canonical (ascending) enumeration of a finite set of naturals
RECURSIVE SetToSortedSeq(_)
SetToSortedSeq(S) == IF S = {} THEN <<>>
                     ELSE LET m == CHOOSE x \in S : \A y \in S : x <= y
                          IN Cons(m, SetToSortedSeq(S \ {m}))

----------------------------------------------------------------------------------------------------
\* configuration (ProtocolStateConfig + the connect options the engine reads)

\* cfg == [policy: "All"|"Ack"|"Q1"|"None", drain: "None"|"One", retries: -1|N, ver: 5|311,
\*         pingTmo: ticks, ka: seconds (0 = none), rejoin: "PostSuccess"|"Always"|"Never",
\*         resolver: "null"|"manual"|"lru", lruMax: N, cid: STRING ("" = none), tamIn: N, sei: N]

PolicyKeeps(policy, kind, qos) ==          \* does_packet_pass_offline_queue_policy
    CASE kind \in {"sub", "unsub"} -> policy \in {"All", "Ack"}
      [] kind = "pub" -> CASE policy = "None" -> FALSE
                           [] policy \in {"Q1", "Ack"} -> qos # 0
                           [] OTHER -> TRUE
      [] OTHER -> FALSE

----------------------------------------------------------------------------------------------------
\* the state record

InitState(cfg) ==
    [cfg |-> cfg,
     st |-> "Disconnected", now |-> 0, pwc |-> FALSE,
     ops |-> EmptyFn,                 \* operations: id -> operation record
     userQ |-> <<>>, resubQ |-> <<>>, hpQ |-> <<>>,
     cur |-> None,                    \* current_operation
     qos2In |-> {},                   \* qos2_incomplete_incoming_publishes
     alloc |-> EmptyFn,               \* allocated_packet_ids: pid -> op
     pendPub |-> EmptyFn, pendNon |-> EmptyFn,
     pwcOps |-> <<>>,                 \* pending_write_completion_operations
     tmos |-> {},                     \* operation_ack_timeouts as a set of [id, at]
     settings |-> [known |-> FALSE],  \* current_settings
     hasConn |-> FALSE, nextOp |-> 1, nextPid |-> 1,
     nextPing |-> None, pingTmo |-> None, connackTmo |-> None,
     slow |-> 0,                      \* slow_start_ack_count
     outAl |-> [max |-> 0, map |-> EmptyFn, lru |-> <<>>],   \* outbound resolver: alias -> topic; lru: topics, least recent first
     inAl |-> EmptyFn,                \* inbound resolver: alias -> topic
     curRes |-> [skip |-> FALSE, alias |-> 0],   \* alias resolution of the packet being encoded (encoder context)
     enc |-> 0,                       \* unit model: units of the current packet still to encode
     encTot |-> 0,                    \* unit model: units the current packet had when seated
     buf |-> 0, cap |-> 0]            \* unit model: units in the output buffer, its capacity

\* operation record; `apid` is the identifier carried by an internally generated acknowledgement
NewOp(kind, a) ==
    [kind |-> kind, qos |-> a.qos, dup |-> FALSE, pid |-> 0, apid |-> a.apid, pubrel |-> FALSE,
     user |-> a.user, key |-> a.key, slowv |-> 0, intr |-> 0, pingBase |-> None, tmo |-> a.tmo,
     topic |-> a.topic, ualias |-> a.ualias, retain |-> a.retain, need |-> a.need, units |-> a.units,
     plen |-> a.plen, n |-> a.n, clean |-> a.clean, cid |-> a.cid]

NoAttrs == [qos |-> 0, apid |-> 0, user |-> FALSE, key |-> 0, tmo |-> None, topic |-> "", ualias |-> 0,
            retain |-> FALSE, need |-> "none", units |-> 1, plen |-> -1, n |-> 0, clean |-> FALSE, cid |-> ""]

IsAckable(o) == o.kind \in {"sub", "unsub"} \/ (o.kind = "pub" /\ o.qos > 0)

\* Exact size on the wire of a PUBLISH that carries nothing but topic, payload and (MQTT 5) possibly a topic alias
\* (plen: payload bytes; -1: the size of this operation is only modelled as a class).  res: its alias resolution.
\*   fixed header 1 + remaining length (variable byte integer) + [2 + topic, unless the alias replaces it] + [2 packet id]
\*   + (MQTT 5) property length 1 + [3: Topic Alias property] + payload
SizeExact(o) == o.kind = "pub" /\ ~o.pubrel /\ o.plen >= 0
VbiLen(n) == IF n < 128 THEN 1 ELSE IF n < 16384 THEN 2 ELSE IF n < 2097152 THEN 3 ELSE 4
PubWire(ver, o, res) ==
    LET var == 2 + (IF res.skip THEN 0 ELSE Len(o.topic)) + (IF o.qos > 0 THEN 2 ELSE 0)
               + (IF ver = 5 THEN 1 + (IF res.alias # 0 THEN 3 ELSE 0) ELSE 0) + o.plen
    IN 1 + VbiLen(var) + var

----------------------------------------------------------------------------------------------------
\* events (the observable vocabulary of the monitors; same record shapes as the recorded traces)

EvBase(s, name) == [ev |-> name, run |-> 0, seq |-> 0, t |-> s.now]

EvComplete(s, o, ok, err, ack, pid, codes, rc, during) ==
    [ev |-> "Complete", run |-> 0, seq |-> 0, t |-> s.now, op |-> o.key, ok |-> ok, err |-> err,
     ack |-> ack, pid |-> pid, codes |-> codes, rc |-> rc, during |-> during]

TxType(o) == CASE o.kind = "pub" -> IF o.pubrel THEN "PUBREL" ELSE "PUBLISH"
               [] o.kind = "sub" -> "SUBSCRIBE" [] o.kind = "unsub" -> "UNSUBSCRIBE"
               [] o.kind = "connect" -> "CONNECT" [] o.kind = "pingreq" -> "PINGREQ"
               [] o.kind = "puback" -> "PUBACK" [] o.kind = "pubrec" -> "PUBREC"
               [] o.kind = "pubcomp" -> "PUBCOMP" [] OTHER -> "DISCONNECT"

EvTx(s, o, partial, res) ==
    LET ty == TxType(o)
        isPub == ty = "PUBLISH"
    IN [ev |-> "Tx", run |-> 0, seq |-> 0, t |-> s.now, t0 |-> s.now, conn |-> 0,
        type |-> ty,
        pid |-> IF o.kind \in {"puback", "pubrec", "pubcomp"} THEN o.apid ELSE o.pid,
        dup |-> IF isPub /\ o.dup THEN 1 ELSE 0,
        qos |-> IF isPub THEN o.qos ELSE 0,
        retain |-> IF isPub /\ o.retain THEN 1 ELSE 0,
        topic |-> IF isPub /\ ~res.skip THEN o.topic ELSE "",
        alias |-> IF isPub THEN res.alias ELSE 0,
        op |-> IF ty \in {"PUBLISH", "SUBSCRIBE", "UNSUBSCRIBE"} THEN o.key ELSE 0,
        hash |-> IF ty \in {"PUBLISH", "SUBSCRIBE", "UNSUBSCRIBE"} THEN o.key ELSE 0,
        n |-> o.n,
        clean |-> IF ty = "CONNECT" THEN (IF o.clean THEN 1 ELSE 0) ELSE -1,
        cid |-> IF ty = "CONNECT" THEN o.cid ELSE "",
        ka |-> IF ty = "CONNECT" THEN s.cfg.ka ELSE -1,
        ohash |-> IF ty = "CONNECT" THEN 7 ELSE -1,
        rc |-> 0, partial |-> IF partial THEN 1 ELSE 0,
        size |-> IF isPub /\ SizeExact(o) THEN PubWire(s.cfg.ver, o, res) ELSE IF o.need = "oversize" THEN 1000 ELSE 10,
        exact |-> IF isPub /\ SizeExact(o) THEN 1 ELSE 0,
        variant |-> o.need]

----------------------------------------------------------------------------------------------------
\* completing operations

\* apply_disconnect_completion: completing a DISCONNECT operation is reported as an error
DisconnectCompletion(s, o) ==
    IF o.kind = "disconnect" /\ s.st = "Disconnected" THEN [s |-> s, err |-> "ok"]      \* discarded: the connection is already gone
    ELSE IF o.kind = "disconnect"
    THEN [s |-> IF s.st = "PendingDisconnect" THEN [s EXCEPT !.st = "Halted"] ELSE s, err |-> "UserInitiatedDisconnect"]
    ELSE [s |-> s, err |-> "ok"]

\* apply_ackable_completion; "PANIC" when the invariant of the slow start count is broken
AckableCompletion(s, o) ==
    IF s.cfg.drain # "One" \/ s.st # "Connected" \/ o.slowv = 0 THEN [s |-> s, panic |-> FALSE]
    ELSE IF s.slow >= o.slowv THEN [s |-> [s EXCEPT !.slow = @ - o.slowv], panic |-> FALSE]
    ELSE [s |-> s, panic |-> TRUE]

\* apply_ping_extension_on_operation_success
PingExtension(s, o) ==
    IF IsAckable(o) /\ o.pingBase # None /\ s.settings.known
    THEN LET ext == o.pingBase + (IF "ping-pushout-uses-requested-keep-alive" \in EngDefects THEN s.cfg.ka ELSE s.settings.ka) * TPS
         IN IF s.nextPing # None /\ ext > s.nextPing THEN [s EXCEPT !.nextPing = ext] ELSE s
    ELSE s

ReleaseIds(s, o) ==
    IF o.pid # 0
    THEN [s EXCEPT !.alloc = FnDrop(@, {o.pid}), !.pendPub = FnDrop(@, {o.pid}), !.pendNon = FnDrop(@, {o.pid})]
    ELSE s

\* complete_operation_as_failure: [s, err, evs];  a missing id is tolerated
Fail(s, id, why, during) ==
    IF id \notin DOMAIN s.ops THEN [s |-> s, err |-> "ok", evs |-> <<>>]
    ELSE LET o == s.ops[id]
             s1 == ReleaseIds([s EXCEPT !.ops = FnDrop(@, {id})], o)
             a == AckableCompletion(s1, o)
             d == DisconnectCompletion(a.s, o)
         IN IF a.panic THEN [s |-> a.s, err |-> "PANIC:slow-start-count", evs |-> <<>>]
            ELSE [s |-> d.s, err |-> d.err,
                  evs |-> IF o.user /\ d.err = "ok" THEN <<EvComplete(s, o, 0, why, "", 0, 0, 0, during)>> ELSE <<>>]

\* complete_operation_as_success: a missing id is an internal error
Succeed(s, id, ack, during) ==       \* ack: [type, pid, codes, rc] or [type |-> ""]
    IF id \notin DOMAIN s.ops THEN [s |-> s, err |-> "InternalStateError", evs |-> <<>>]
    ELSE LET o == s.ops[id]
             s1 == ReleaseIds([s EXCEPT !.ops = FnDrop(@, {id})], o)
             a == AckableCompletion(s1, o)
             p == PingExtension(a.s, o)
             d == DisconnectCompletion(p, o)
         IN IF a.panic THEN [s |-> a.s, err |-> "PANIC:slow-start-count", evs |-> <<>>]
            ELSE [s |-> d.s, err |-> d.err,
                  evs |-> IF o.user /\ d.err = "ok"
                          THEN <<EvComplete(s, o, 1, "", ack.type, IF ack.type = "" THEN 0 ELSE ack.pid,
                                            IF ack.type = "" THEN 0 ELSE ack.codes, IF ack.type = "" THEN 0 ELSE ack.rc, during)>>
                          ELSE <<>>]

NoAck == [type |-> ""]

\* fold_mqtt_result: the latest error wins; a panic is sticky
FoldErr(base, new) == IF new # "ok" THEN new ELSE base

\* complete_operation_sequence_as_failure over a sequence of ids
RECURSIVE FailSeq(_, _, _, _)
FailSeq(s, ids, why, during) ==
    IF ids = <<>> THEN [s |-> s, err |-> "ok", evs |-> <<>>]
    ELSE LET r == Fail(s, Head(ids), why, during)
             rest == FailSeq(r.s, Tail(ids), why, during)
         IN [s |-> rest.s, err |-> FoldErr(r.err, rest.err), evs |-> r.evs \o rest.evs]

RECURSIVE SucceedSeq(_, _, _)
SucceedSeq(s, ids, during) ==
    IF ids = <<>> THEN [s |-> s, err |-> "ok", evs |-> <<>>]
    ELSE LET r == Succeed(s, Head(ids), NoAck, during)
             rest == SucceedSeq(r.s, Tail(ids), during)
         IN [s |-> rest.s, err |-> FoldErr(r.err, rest.err), evs |-> r.evs \o rest.evs]

\* every panic site of protocol.rs that the specification can reach
Panics == {"PANIC:slow-start-count", "PANIC:connack-hpq", "PANIC:connack-pendpub", "PANIC:connack-pendnon",
           "PANIC:connack-timeouts", "PANIC:connack-pwcops", "PANIC:suback-unwrap", "PANIC:pubcomp-unwrap",
           "PANIC:pubcomp-not-publish", "PANIC:close-unwrap"}
IsPanic(err) == err \in Panics

\* every entry point: an error result halts the engine (handle_network_event / service wrappers)
Wrap(r) == IF r.res # "ok" /\ ~IsPanic(r.res) THEN [r EXCEPT !.s.st = "Halted"] ELSE r

Ret(s, res, evs) == [s |-> s, res |-> res, evs |-> evs]

----------------------------------------------------------------------------------------------------
\* handle_user_event

CreateOp(s, kind, a) ==                   \* create_operation: [s, id]
    [s |-> [s EXCEPT !.ops = FnPut(@, s.nextOp, NewOp(kind, a)), !.nextOp = @ + 1], id |-> s.nextOp]

UserSubmit(s0, t, kind, a) ==             \* kind in {"pub", "sub", "unsub"}
    LET s == [s0 EXCEPT !.now = t]
        c == CreateOp(s, kind, [a EXCEPT !.user = TRUE])
        passes == s.st = "Connected" \/ PolicyKeeps(s.cfg.policy, kind, a.qos)
    IN IF ~passes THEN LET f == Fail(c.s, c.id, "OfflineQueuePolicyFailed", "submit") IN Ret(f.s, "ok", f.evs)
       ELSE Ret([c.s EXCEPT !.userQ = Append(@, c.id)], "ok", <<>>)

UserDisconnect(s0, t) ==
    LET s == [s0 EXCEPT !.now = t]
        c == CreateOp(s, "disconnect", NoAttrs)
    IN IF s.st # "Connected" THEN LET f == Fail(c.s, c.id, "OfflineQueuePolicyFailed", "submit") IN Ret(f.s, "ok", f.evs)
       ELSE Ret([c.s EXCEPT !.hpQ = Cons(c.id, @)], "ok", <<>>)

----------------------------------------------------------------------------------------------------
\* handle_network_event: ConnectionOpened

CleanStart(s) == CASE s.cfg.rejoin = "Always" -> FALSE [] s.cfg.rejoin = "Never" -> TRUE [] OTHER -> ~s.hasConn
ConnectClientId(s) == IF s.cfg.cid # "" THEN s.cfg.cid ELSE IF s.settings.known THEN s.settings.cid ELSE ""

ConnOpened(s0, t, deadline) ==
    LET s == [s0 EXCEPT !.now = t] IN
    IF s.st # "Disconnected" THEN Wrap(Ret(s, "InternalStateError", <<>>))
    ELSE LET c == CreateOp([s EXCEPT !.st = "PendingConnack", !.cur = None, !.pwc = FALSE, !.enc = 0, !.encTot = 0, !.buf = 0],
                           "connect", [NoAttrs EXCEPT !.clean = CleanStart(s), !.cid = ConnectClientId(s), !.units = s.cfg.connectUnits])
             s2 == [c.s EXCEPT !.hpQ = Cons(c.id, @), !.connackTmo = deadline]
         IN Ret(IF "settings-wiped-at-open" \in EngDefects THEN [s2 EXCEPT !.settings = [known |-> FALSE]] ELSE s2, "ok", <<>>)

----------------------------------------------------------------------------------------------------
\* handle_network_event: ConnectionClosed

\* partition_operation_queue_by_queue_policy: ids that no longer exist are dropped
Retained(s, q) == SelectSeq(q, LAMBDA id : id \in DOMAIN s.ops /\ PolicyKeeps(s.cfg.policy, s.ops[id].kind, s.ops[id].qos))
Rejected(s, q) == SelectSeq(q, LAMBDA id : id \in DOMAIN s.ops /\ ~PolicyKeeps(s.cfg.policy, s.ops[id].kind, s.ops[id].qos))

\* a partially encoded packet left behind when the connection ends
PartialEv(s) ==
    IF s.cur # None /\ s.cur \in DOMAIN s.ops /\ s.encTot > 0 /\ s.enc < s.encTot
    THEN <<EvTx(s, s.ops[s.cur], TRUE, [skip |-> FALSE, alias |-> 0])>> ELSE <<>>

\* apply_connection_closed_to_current_operation: [s, err, evs]; on error `cur` is left as it was
CloseCurrent(s) ==
    IF s.cur = None \/ s.cur \notin DOMAIN s.ops THEN [s |-> [s EXCEPT !.cur = None], err |-> "ok", evs |-> <<>>]
    ELSE LET id == s.cur
             o == s.ops[id]
             done(x) == [s |-> [x EXCEPT !.cur = None], err |-> "ok", evs |-> <<>>]
             failed(why) == LET f == Fail(s, id, why, "close")
                            IN IF f.err # "ok" THEN f ELSE [s |-> [f.s EXCEPT !.cur = None], err |-> "ok", evs |-> f.evs]
         IN CASE o.kind \in {"sub", "unsub"} ->
                     IF PolicyKeeps(s.cfg.policy, o.kind, o.qos) THEN done([s EXCEPT !.userQ = Cons(id, @)])
                     ELSE failed("OfflineQueuePolicyFailed")
              [] o.kind = "pub" /\ "policy-before-inflight-exceptions" \in EngDefects /\ ~PolicyKeeps(s.cfg.policy, o.kind, o.qos) -> failed("OfflineQueuePolicyFailed")
              [] o.kind = "pub" ->
                     IF o.dup THEN (IF id \in Range(s.pendPub) THEN done(s) ELSE done([s EXCEPT !.resubQ = Cons(id, @)]))
                     ELSE IF o.qos = 2 /\ o.pubrel THEN done([s EXCEPT !.hpQ = Cons(id, @)])
                     ELSE IF PolicyKeeps(s.cfg.policy, o.kind, o.qos) THEN done([s EXCEPT !.userQ = Cons(id, @)])
                     ELSE failed("OfflineQueuePolicyFailed")
              [] OTHER -> failed("ConnectionClosed")

\* apply_slow_start_initialization
MarkSlowStart(s) ==
    IF s.cfg.drain # "One" THEN s
    ELSE LET pend == Range(s.pendNon) \cup Range(s.pendPub)
         IN [s EXCEPT !.ops = [id \in DOMAIN @ |-> [@[id] EXCEPT !.slowv = IF id \in pend THEN 1 ELSE 0]]]

\* update_interrupted_retries (an id in both tables would be counted twice, as in the code)
BumpInterruptions(s) ==
    IF s.cfg.retries = None THEN s
    ELSE LET cnt(id) == Cardinality({p \in DOMAIN s.pendNon : s.pendNon[p] = id}) + Cardinality({p \in DOMAIN s.pendPub : s.pendPub[p] = id})
             bound(id) == IF "interruptions-counted-when-bound" \in EngDefects /\ s.ops[id].pid # 0 /\ cnt(id) = 0 THEN 1 ELSE 0
         IN [s EXCEPT !.ops = [id \in DOMAIN @ |-> [@[id] EXCEPT !.intr = @ + cnt(id) + bound(id)]]]

\* pubOrder / nonOrder: the HashMap iteration orders of the two pending tables (values)
ConnClosed(s0, t, pubOrder, nonOrder) ==
    LET sA == [s0 EXCEPT !.now = t] IN
    IF sA.st = "Disconnected" THEN Wrap(Ret(sA, "InternalStateError", <<>>))
    ELSE
    LET part == PartialEv(sA)
        s1 == [sA EXCEPT !.st = "Disconnected", !.connackTmo = None, !.nextPing = None, !.pingTmo = None, !.tmos = {},
                         !.enc = 0, !.encTot = 0, !.buf = 0]
        r1 == CloseCurrent(s1)
    IN IF r1.err # "ok" THEN Wrap(Ret(r1.s, r1.err, part \o r1.evs))        \* the `?`: the rest of the handler is skipped
       ELSE
       LET s2 == BumpInterruptions(MarkSlowStart(r1.s))
           \* high priority queue: everything but pubrel-carrying publishes is failed; those are dropped from the queue
           hpFail == SelectSeq(s2.hpQ, LAMBDA id : ~(id \in DOMAIN s2.ops /\ s2.ops[id].pubrel))
           r4 == FailSeq([s2 EXCEPT !.hpQ = <<>>], hpFail, "ConnectionClosed", "close")
           \* written, write completion pending: by offline policy
           keep5 == Retained(r4.s, r4.s.pwcOps)
           rej5 == Rejected(r4.s, r4.s.pwcOps)
           r5 == FailSeq([r4.s EXCEPT !.pwcOps = <<>>, !.userQ = @ \o keep5], rej5, "OfflineQueuePolicyFailed", "close")
           \* interrupted-retry limit
           over(tbl, s) == SelectSeq(tbl, LAMBDA id : id \in DOMAIN s.ops /\ s.ops[id].intr > s.cfg.retries)
           r6a == IF r5.s.cfg.retries = None THEN [s |-> r5.s, err |-> "ok", evs |-> <<>>]
                  ELSE FailSeq(r5.s, over(SelectSeq(nonOrder, LAMBDA id : id \in Range(r5.s.pendNon)), r5.s), "MaxInterruptedRetriesExceeded", "close")
           r6b == IF r5.s.cfg.retries = None THEN r6a
                  ELSE FailSeq(r6a.s, over(SelectSeq(pubOrder, LAMBDA id : id \in Range(r6a.s.pendPub)), r6a.s), "MaxInterruptedRetriesExceeded", "close")
           s6 == r6b.s
           \* publish table -> back of the resubmit queue, marked duplicate
           pubs == SelectSeq(pubOrder, LAMBDA id : id \in Range(s6.pendPub))
           s7 == [s6 EXCEPT !.ops = [id \in DOMAIN @ |-> IF id \in SeqToSet(pubs) /\ @[id].kind = "pub" THEN [@[id] EXCEPT !.dup = TRUE] ELSE @[id]],
                            !.resubQ = @ \o pubs, !.pendPub = EmptyFn]
           \* sub / unsub table -> front of the user queue, one push_front at a time
           nons == SelectSeq(nonOrder, LAMBDA id : id \in Range(s7.pendNon))
           RevSeq(q) == [i \in 1..Len(q) |-> q[Len(q) + 1 - i]]
           s8 == [s7 EXCEPT !.userQ = RevSeq(nons) \o @, !.pendNon = EmptyFn]
           \* offline policy over the user queue
           keep9 == Retained(s8, s8.userQ)
           rej9 == Rejected(s8, s8.userQ)
           r9 == FailSeq([s8 EXCEPT !.userQ = keep9], rej9, "OfflineQueuePolicyFailed", "close")
           err == FoldErr(FoldErr(FoldErr(FoldErr(r4.err, r5.err), r6a.err), r6b.err), r9.err)
       IN Wrap(Ret(r9.s, err, part \o r1.evs \o r4.evs \o r5.evs \o r6a.evs \o r6b.evs \o r9.evs))

\* the orders ConnClosed may be given in state s
ClosePubOrderOk(s, q) == IsPermutationOf(q, Range(s.pendPub))
CloseNonOrderOk(s, q) == IsPermutationOf(q, Range(s.pendNon))

----------------------------------------------------------------------------------------------------
\* handle_network_event: WriteCompletion

WriteCompletion(s0, t) ==
    LET s == [s0 EXCEPT !.now = t] IN
    IF s.st \in {"Halted", "Disconnected"} THEN Wrap(Ret(s, "InternalStateError", <<>>))
    ELSE IF ~s.pwc THEN Wrap(Ret(s, "InternalStateError", <<>>))
    ELSE LET r == SucceedSeq([s EXCEPT !.pwc = FALSE, !.pwcOps = <<>>, !.buf = 0], s.pwcOps, "writedone")
         IN Wrap(Ret(r.s, r.err, r.evs))

----------------------------------------------------------------------------------------------------
\* service: dequeue rule, packet id binding, alias resolution, last-chance validation

SlowThrottled(s) == s.cfg.drain = "One" /\ s.st = "Connected" /\ s.slow # 0
HasPendingAck(s) == DOMAIN s.pendPub # {} \/ DOMAIN s.pendNon # {}

\* does_operation_pass_receive_maximum_flow_control
PassesReceiveMaximum(s, id) ==
    ~(/\ s.settings.known
      /\ Cardinality(DOMAIN s.pendPub) >= s.settings.rm
      /\ id \in DOMAIN s.ops /\ s.ops[id].kind = "pub"
      /\ (IF "qos2-bypasses-receive-maximum" \in EngDefects THEN s.ops[id].qos = 1 ELSE s.ops[id].qos # 0))

\* dequeue_operation: [id, s]
Dequeue(s, mode) ==
    IF s.pwc THEN [id |-> None, s |-> s]
    ELSE IF s.hpQ # <<>> THEN [id |-> Head(s.hpQ), s |-> [s EXCEPT !.hpQ = Tail(@)]]
    ELSE IF mode = "HighPriorityOnly" THEN [id |-> None, s |-> s]
    ELSE IF SlowThrottled(s) /\ HasPendingAck(s) THEN [id |-> None, s |-> s]
    ELSE IF s.resubQ # <<>> THEN
             IF ~PassesReceiveMaximum(s, Head(s.resubQ)) THEN [id |-> None, s |-> s]
             ELSE [id |-> Head(s.resubQ), s |-> [s EXCEPT !.resubQ = Tail(@)]]
    ELSE IF s.userQ # <<>> THEN
             IF ~PassesReceiveMaximum(s, Head(s.userQ)) THEN [id |-> None, s |-> s]
             ELSE [id |-> Head(s.userQ), s |-> [s EXCEPT !.userQ = Tail(@)]]
    ELSE [id |-> None, s |-> s]

\* acquire_free_packet_id: first free id at or after next_packet_id, wrapping; the cursor ends one past it
NextId(p) == IF p = PidMax THEN 1 ELSE p + 1
RECURSIVE FindFree(_, _, _)
FindFree(s, check, steps) ==            \* steps: ids examined so far
    IF steps >= PidMax THEN 0
    ELSE IF check \notin DOMAIN s.alloc THEN check
    ELSE FindFree(s, NextId(check), steps + 1)

\* acquire_packet_id_for_operation: [s, err]
BindPid(s, id) ==
    LET o == s.ops[id] IN
    IF o.pid # 0 \/ ~IsAckable(o) THEN [s |-> s, err |-> "ok"]
    ELSE LET p == FindFree(s, s.nextPid, 0)
         IN IF p = 0 THEN [s |-> [s EXCEPT !.nextPid = s.nextPid], err |-> "InternalStateError"]   \* id space exhausted (cursor is back where it started)
            ELSE [s |-> [s EXCEPT !.alloc = FnPut(@, p, id), !.ops[id].pid = p, !.nextPid = NextId(p)], err |-> "ok"]

\* outbound alias resolvers (alias.rs): [s, skip, alias]   (alias 0 = none)
LruTouch(lru, topic) == SelectSeq(lru, LAMBDA x : x # topic) \o <<topic>>
AliasOfTopic(map, topic) == CHOOSE a \in DOMAIN map : map[a] = topic

ResolveAlias(s, o) ==
    LET al == s.outAl
        none == [s |-> s, skip |-> FALSE, alias |-> 0]
    IN IF o.kind # "pub" \/ o.pubrel THEN none
       ELSE CASE s.cfg.resolver = "manual" ->
                     IF o.ualias = 0 THEN none
                     ELSE IF o.ualias \in DOMAIN al.map /\ al.map[o.ualias] = o.topic THEN [s |-> s, skip |-> TRUE, alias |-> o.ualias]
                     ELSE IF o.ualias > 0 /\ o.ualias < al.max
                          THEN [s |-> [s EXCEPT !.outAl.map = FnPut(@, o.ualias, o.topic)], skip |-> FALSE, alias |-> o.ualias]
                     ELSE none
              [] s.cfg.resolver = "lru" ->
                     IF al.max = 0 THEN none
                     ELSE IF \E a \in DOMAIN al.map : al.map[a] = o.topic
                          THEN [s |-> [s EXCEPT !.outAl.lru = LruTouch(@, o.topic)], skip |-> TRUE, alias |-> AliasOfTopic(al.map, o.topic)]
                     ELSE LET full == Cardinality(DOMAIN al.map) = al.max
                              victim == Head(al.lru)
                              a == IF full THEN AliasOfTopic(al.map, victim) ELSE Cardinality(DOMAIN al.map) + 1
                              lru2 == IF full THEN Tail(al.lru) ELSE al.lru
                          IN [s |-> [s EXCEPT !.outAl.map = FnPut(@, a, o.topic), !.outAl.lru = Append(lru2, o.topic)],
                              skip |-> FALSE, alias |-> a]
              [] OTHER -> none

ResetOutAlias(s, max) ==
    [s EXCEPT !.outAl = [max |-> IF s.cfg.resolver = "lru" THEN Min2(s.cfg.lruMax, max) ELSE max, map |-> EmptyFn, lru |-> <<>>]]

\* validate_packet_outbound_internal reduced to the capability / size class the packet needs
\* vfail: (trace validation only) ids the recorded call failed for a reason the size class cannot
\* express; believed only when the server announced a maximum packet size at all
\* res: the alias resolution the packet will be encoded with - its size on the wire depends on it
\*   defect "validate-before-alias": the size is judged as if no alias were used (resolution computed after validation)
LastChanceOk(s, id, o, res, vfail) ==
    IF o.kind \notin {"pub", "sub", "unsub"} \/ (o.kind = "pub" /\ o.pubrel) THEN TRUE
    ELSE /\ o.need \notin {"badfilter", "nolocalshared"}
         /\ (o.need = "oversize" => ~s.settings.smallMps)
         /\ (SizeExact(o) => PubWire(s.cfg.ver, o, IF "validate-before-alias" \in EngDefects THEN [skip |-> FALSE, alias |-> 0] ELSE res) <= s.settings.mps)
         /\ ~(id \in vfail /\ ~SizeExact(o) /\ s.settings.mps < 268435455)
         /\ (o.kind = "pub" => /\ o.qos <= s.settings.mqos
                               /\ (o.retain => s.settings.ret))
         /\ (o.need = "wild" => s.settings.wild)
         /\ (o.need = "shared" => s.settings.shared)
         /\ (o.need = "sharedwild" => s.settings.shared /\ s.settings.wild)      \* a shared subscription whose filter part has a wildcard needs both

\* on_current_operation_fully_written
FullyWritten(s, res) ==
    LET id == s.cur
        o == s.ops[id]
        s1 == CASE o.kind \in {"sub", "unsub"} -> [s EXCEPT !.pendNon = FnPut(@, o.pid, id)]
                [] o.kind = "pub" -> IF o.qos = 0 THEN [s EXCEPT !.pwcOps = Append(@, id)] ELSE [s EXCEPT !.pendPub = FnPut(@, o.pid, id)]
                [] o.kind = "disconnect" -> [s EXCEPT !.st = "PendingDisconnect", !.pwcOps = Append(@, id)]
                [] OTHER -> [s EXCEPT !.pwcOps = Append(@, id)]
        s2 == [s1 EXCEPT !.ops[id].pingBase = s.now,
                         !.tmos = IF o.user /\ o.tmo # None THEN @ \cup {[id |-> id, at |-> s.now + o.tmo]} ELSE @,
                         !.cur = None, !.enc = 0, !.encTot = 0]
    IN [s |-> s2, evs |-> <<EvTx(s, o, FALSE, res)>>]

\* the alias resolution of the packet being encoded is not part of the code's state; a packet that
\* spans several service calls was resolved in the call that seated it.  It is carried here:
\*   s.curRes  (skip, alias) of the current operation

Units(o) == IF o.kind = "pub" /\ o.pubrel THEN 1 ELSE o.units

\* service_queue_aux.  plan: outcomes of the encode attempts of this call.
\* returns [s, res, evs, plan (unconsumed), wrote, valid]
RECURSIVE SvcLoop(_, _, _, _, _, _)
SvcLoop(s, mode, plan, evs, wrote, vfail) ==
    LET out(x, res) == [s |-> x, res |-> res, evs |-> evs, plan |-> plan, wrote |-> wrote, valid |-> TRUE] IN
    IF s.st \notin {"PendingConnack", "Connected"} THEN out(s, "ok")
    ELSE IF s.cur = None THEN
        LET d == Dequeue(s, mode) IN
        IF d.id = None THEN out(s, "ok")
        ELSE IF d.id \notin DOMAIN d.s.ops THEN SvcLoop(d.s, mode, plan, evs, wrote, vfail)          \* stale id: skipped
        ELSE LET b == BindPid([d.s EXCEPT !.cur = d.id], d.id) IN
             IF b.err # "ok" THEN out(b.s, b.err)
             ELSE LET o == b.s.ops[d.id]
                      r == ResolveAlias(b.s, o)
                  IN IF ~LastChanceOk(r.s, d.id, o, [skip |-> r.skip, alias |-> r.alias], vfail) THEN
                         LET s3 == IF r.alias # 0 /\ ~r.skip THEN ResetOutAlias(r.s, IF r.s.settings.known THEN r.s.settings.tam ELSE 0) ELSE r.s
                             f == Fail([s3 EXCEPT !.cur = None], d.id, "PacketValidationFailure", "service")
                         IN IF f.err # "ok" THEN [s |-> f.s, res |-> f.err, evs |-> evs \o f.evs, plan |-> plan, wrote |-> wrote, valid |-> TRUE]
                            ELSE SvcLoop(f.s, mode, plan, evs \o f.evs, wrote, vfail)
                     ELSE SvcLoop([r.s EXCEPT !.enc = Units(o), !.encTot = Units(o), !.curRes = [skip |-> r.skip, alias |-> r.alias]], mode, plan, evs, wrote, vfail)
    ELSE IF s.cur \notin DOMAIN s.ops THEN out(s, "InternalStateError")
    ELSE IF plan = <<>> THEN [s |-> s, res |-> "ok", evs |-> evs, plan |-> plan, wrote |-> wrote, valid |-> FALSE]
    ELSE LET room == s.cap - s.buf
             o == Head(plan)
         IN IF o = "c" THEN
                IF UnitsOn /\ s.enc > room THEN [s |-> s, res |-> "ok", evs |-> evs, plan |-> plan, wrote |-> wrote, valid |-> FALSE]
                ELSE LET w == FullyWritten(IF UnitsOn THEN [s EXCEPT !.buf = @ + s.enc] ELSE s, s.curRes)
                     IN SvcLoop(w.s, mode, Tail(plan), evs \o w.evs, wrote \/ (UnitsOn /\ s.enc > 0), vfail)
            ELSE
                IF UnitsOn /\ s.enc <= room THEN [s |-> s, res |-> "ok", evs |-> evs, plan |-> plan, wrote |-> wrote, valid |-> FALSE]
                ELSE [s |-> IF UnitsOn THEN [s EXCEPT !.buf = s.cap, !.enc = @ - room] ELSE s, res |-> "ok", evs |-> evs,
                      plan |-> Tail(plan), wrote |-> wrote \/ (UnitsOn /\ room > 0), valid |-> TRUE]

\* service_queue: pending_write_completion is set when the call appended bytes
SvcQueue(s, mode, plan, wroteHint, vfail) ==
    LET r == SvcLoop(s, mode, plan, <<>>, FALSE, vfail)
        wrote == IF UnitsOn THEN r.wrote ELSE wroteHint
    IN [s |-> IF wrote THEN [r.s EXCEPT !.pwc = TRUE] ELSE r.s, res |-> r.res, evs |-> r.evs,
        valid |-> r.valid /\ r.plan = <<>>]

\* process_ack_timeouts
ProcessAckTimeouts(s) ==
    LET due == {r \in s.tmos : r.at <= s.now}
        ids == SetToSortedSeq({r.id : r \in due})
        f == FailSeq([s EXCEPT !.tmos = @ \ due], ids, "AckTimeout", "service")
    IN f

\* service_keep_alive: [s, res]
KeepAlive(s) ==
    IF s.pingTmo # None THEN (IF s.now >= s.pingTmo THEN [s |-> s, res |-> "ConnectionClosed"] ELSE [s |-> s, res |-> "ok"])
    ELSE IF s.nextPing # None /\ s.now >= s.nextPing THEN
        LET c == CreateOp(s, "pingreq", NoAttrs)
            ka == s.settings.ka
            s1 == [c.s EXCEPT !.hpQ = Cons(c.id, @), !.pingTmo = s.now + Min2(s.cfg.pingTmo, (ka * TPS) \div 2)]
        IN [s |-> IF ka > 0 THEN [s1 EXCEPT !.nextPing = s.now + ka * TPS] ELSE s1, res |-> "ok"]
    ELSE [s |-> s, res |-> "ok"]

\* service.  [s, res, evs, valid]
Service(s0, t, cap, plan, wroteHint, vfail) ==
    LET s == [s0 EXCEPT !.now = t, !.cap = IF UnitsOn THEN cap ELSE 0]
        fin(r) == LET w == Wrap(Ret(r.s, r.res, r.evs)) IN [s |-> w.s, res |-> w.res, evs |-> w.evs, valid |-> r.valid]
        noPlan(x, res, evs) == [s |-> x, res |-> res, evs |-> evs, valid |-> plan = <<>>]
    IN CASE s.st = "Disconnected" -> noPlan(s, "ok", <<>>)
         [] s.st = "Halted" -> noPlan(s, "InternalStateError", <<>>)
         [] s.st = "PendingConnack" ->
                IF s.now >= s.connackTmo THEN fin(noPlan(s, "ConnectionEstablishmentFailure", <<>>))
                ELSE fin(SvcQueue(s, "HighPriorityOnly", plan, wroteHint, vfail))
         [] s.st = "Connected" ->
                LET k == KeepAlive(s) IN
                IF k.res # "ok" THEN fin(noPlan(k.s, k.res, <<>>))
                ELSE LET q == SvcQueue(k.s, "All", plan, wroteHint, vfail) IN
                     IF q.res # "ok" THEN fin(q)
                     ELSE LET a == ProcessAckTimeouts(q.s)
                          IN fin([s |-> a.s, res |-> a.err, evs |-> q.evs \o a.evs, valid |-> q.valid])
         [] OTHER ->     \* PendingDisconnect
                LET a == ProcessAckTimeouts(s) IN fin(noPlan(a.s, a.err, a.evs))

----------------------------------------------------------------------------------------------------
\* get_next_service_timepoint (None = never)

QueueTime(s, mode) ==                 \* get_next_service_timepoint_protocol_queue
    IF s.pwc THEN None
    ELSE IF s.cur # None THEN s.now
    ELSE IF s.hpQ # <<>> THEN s.now
    ELSE IF mode # "All" THEN None
    ELSE IF SlowThrottled(s) /\ HasPendingAck(s) THEN None
    ELSE LET head == IF s.resubQ # <<>> THEN Head(s.resubQ) ELSE IF s.userQ # <<>> THEN Head(s.userQ) ELSE None
         IN IF s.settings.known /\ Cardinality(DOMAIN s.pendPub) >= s.settings.rm /\ head # None /\ head \in DOMAIN s.ops
               /\ s.ops[head].kind = "pub" /\ s.ops[head].qos # 0 THEN None
            ELSE IF s.resubQ # <<>> \/ s.userQ # <<>> THEN s.now
            ELSE None

MinT(a, b) == IF a = None THEN b ELSE IF b = None THEN a ELSE Min2(a, b)
MinTmo(s) == IF s.tmos = {} THEN None ELSE LET r == CHOOSE x \in s.tmos : \A y \in s.tmos : x.at <= y.at IN r.at

NextServiceTime(s0, t) ==
    LET s == [s0 EXCEPT !.now = t] IN
    CASE s.st = "PendingConnack" -> MinT(QueueTime(s, "HighPriorityOnly"), s.connackTmo)
      [] s.st = "Connected" ->
             LET base == MinT(s.pingTmo, MinTmo(s)) IN
             IF s.pwc THEN (IF "timer-dropped-while-write-pending" \in EngDefects THEN s.pingTmo ELSE base)
             ELSE MinT(QueueTime(s, "All"), MinT(base, s.nextPing))
      [] s.st = "PendingDisconnect" -> MinT(QueueTime(s, "HighPriorityOnly"), MinTmo(s))
      [] OTHER -> None

----------------------------------------------------------------------------------------------------
\* handle_network_event: IncomingData, one decoded packet
\* p == [type, pid, rc, codes, sp, rm, ka, tam, mqos, mps, ret, wild, subid, shared, acid, sei, qos, dup, topic, alias, hash]
\*      (absent CONNACK properties are -1 / "")

Dflt(v, d) == IF v = -1 THEN d ELSE v

EvSurface(s, ty, p) ==
    [ev |-> "Surface", run |-> 0, seq |-> 0, t |-> s.now, conn |-> 0, type |-> ty, pid |-> p.pid, qos |-> p.qos, topic |-> p.topic, hash |-> p.hash, rc |-> p.rc]

EvSettings(s) ==
    [ev |-> "Settings", run |-> 0, seq |-> 0, t |-> s.now, rm |-> s.settings.rm, ka |-> s.settings.ka, tam |-> s.settings.tam,
     mqos |-> s.settings.mqos, mps |-> s.settings.mps, ret |-> IF s.settings.ret THEN 1 ELSE 0, wild |-> IF s.settings.wild THEN 1 ELSE 0,
     subid |-> IF s.settings.subid THEN 1 ELSE 0, shared |-> IF s.settings.shared THEN 1 ELSE 0, sp |-> IF s.settings.sp THEN 1 ELSE 0,
     cid |-> s.settings.cid, sei |-> s.settings.sei]

\* build_negotiated_settings
Negotiate(s, p) ==
    [known |-> TRUE,
     mqos |-> Dflt(p.mqos, 2), sei |-> Dflt(p.sei, s.cfg.sei), rm |-> Dflt(p.rm, 65535), mps |-> Dflt(p.mps, 268435455),
     smallMps |-> p.mps # -1 /\ p.mps < 1000,
     tam |-> Dflt(p.tam, 0), ka |-> Dflt(p.ka, s.cfg.ka),
     ret |-> p.ret # 0, wild |-> p.wild # 0, subid |-> p.subid # 0, shared |-> p.shared # 0, sp |-> p.sp = 1,
     cid |-> IF p.acid # "" THEN p.acid ELSE IF s.cfg.cid # "" THEN s.cfg.cid ELSE IF s.settings.known THEN s.settings.cid ELSE ""]

\* apply_session_present_to_connection: [s, err, evs]
ApplySessionPresent(s, sp) ==
    LET r1 == IF sp THEN [s |-> IF "alloc-cleared-on-every-connack" \in EngDefects THEN [s EXCEPT !.alloc = EmptyFn] ELSE s, err |-> "ok", evs |-> <<>>]
              ELSE LET keep == Retained(s, s.resubQ)
                       rej == Rejected(s, s.resubQ)
                       s1 == [s EXCEPT !.resubQ = <<>>, !.userQ = @ \o keep,
                                       !.ops = [id \in DOMAIN @ |-> IF id \in SeqToSet(keep) /\ @[id].kind = "pub" THEN [@[id] EXCEPT !.dup = FALSE] ELSE @[id]]]
                       f == FailSeq(s1, rej, "OfflineQueuePolicyFailed", "rx")
                   IN [s |-> [f.s EXCEPT !.qos2In = IF "qos2in-kept-when-nothing-in-flight" \in EngDefects /\ s.resubQ = <<>> THEN @ ELSE {}, !.alloc = EmptyFn],
                       err |-> f.err, evs |-> f.evs]
        s2 == r1.s
        inUser == {id \in SeqToSet(s2.userQ) : id \in DOMAIN s2.ops}
        boundPids == {s2.ops[id].pid : id \in inUser} \ {0}
        s3 == [s2 EXCEPT !.alloc = FnDrop(@, boundPids),
                         !.ops = [id \in DOMAIN @ |-> IF id \in inUser THEN [@[id] EXCEPT !.pid = 0, !.pubrel = FALSE] ELSE @[id]],
                         !.resubQ = IF "resubmit-unsorted" \in EngDefects THEN @ ELSE SortIds(@), !.userQ = SortIds(@)]
        panic == CASE s3.hpQ # <<>> -> "PANIC:connack-hpq"
                   [] DOMAIN s3.pendPub # {} -> "PANIC:connack-pendpub"
                   [] DOMAIN s3.pendNon # {} -> "PANIC:connack-pendnon"
                   [] s3.tmos # {} -> "PANIC:connack-timeouts"
                   [] s3.pwcOps # <<>> -> "PANIC:connack-pwcops"
                   [] OTHER -> "ok"
    IN [s |-> s3, err |-> IF panic # "ok" THEN panic ELSE r1.err, evs |-> r1.evs]

\* unbind_operation_packet_id only unbinds the id of an operation that still exists; an id in the
\* user queue whose operation is gone is left alone (stale)

HandleConnack(s, p) ==
    IF s.st # "PendingConnack" THEN Ret(s, "ProtocolError", <<>>)
    ELSE IF p.rc # 0 THEN Ret(s, "ConnectionEstablishmentFailure", <<EvSurface(s, "CONNACK", p)>>)
    ELSE LET set == Negotiate(s, p)
             s1 == [s EXCEPT !.st = "Connected", !.hasConn = TRUE, !.settings = set, !.connackTmo = None,
                             !.inAl = IF "inbound-aliases-survive-resumed-session" \in EngDefects /\ p.sp = 1 THEN @ ELSE EmptyFn, !.pingTmo = None,
                             !.nextPing = IF set.ka > 0 THEN s.now + set.ka * TPS ELSE None]
             s2 == ResetOutAlias(s1, Dflt(p.tam, 0))
             tot(ops, S) == LET RECURSIVE sum(_) sum(T) == IF T = {} THEN 0 ELSE LET x == CHOOSE y \in T : TRUE IN ops[x].slowv + sum(T \ {x}) IN sum(S)
             s3 == IF s.cfg.drain = "One" THEN [s2 EXCEPT !.slow = tot(s2.ops, DOMAIN s2.ops)] ELSE s2
             a == ApplySessionPresent(s3, p.sp = 1)
         IN IF a.err # "ok" THEN Ret(a.s, a.err, a.evs)
            ELSE Ret(a.s, "ok", a.evs \o <<EvSurface(a.s, "CONNACK", p), EvSettings(a.s)>>)

\* validate_connack_packet_inbound_internal
ConnackValid(p) == ~(p.sp = 1 /\ p.rc # 0) /\ p.rm # 0 /\ p.mqos # 2 /\ p.mps # 0

AckRec(p, codes) == [type |-> p.type, pid |-> p.pid, codes |-> codes, rc |-> p.rc]

HandlePacket(s, p) ==
    LET early == s.st \in {"Disconnected", "PendingConnack"} IN
    CASE p.type = "CONNACK" -> HandleConnack(s, p)
      [] p.type = "PINGRESP" ->
             IF s.st \in {"Connected", "PendingDisconnect"} /\ s.pingTmo # None THEN Ret([s EXCEPT !.pingTmo = None], "ok", <<>>)
             ELSE Ret(s, "ProtocolError", <<>>)
      [] p.type \in {"SUBACK", "UNSUBACK"} ->
             IF early THEN Ret(s, "ProtocolError", <<>>)
             ELSE IF p.pid \notin DOMAIN s.pendNon THEN Ret(s, "ProtocolError", <<>>)
             ELSE LET id == s.pendNon[p.pid] IN
                  IF id \notin DOMAIN s.ops THEN Ret(s, "PANIC:suback-unwrap", <<>>)
                  ELSE LET o == s.ops[id] IN
                       IF (p.type = "SUBACK" /\ o.kind # "sub") \/ (p.type = "UNSUBACK" /\ o.kind # "unsub") THEN Ret(s, "ProtocolError", <<>>)
                       ELSE IF p.type = "UNSUBACK" /\ s.cfg.ver = 311 THEN
                                LET r == Succeed(s, id, AckRec(p, o.n), "rx") IN Ret(r.s, r.err, r.evs)
                       ELSE IF p.codes # o.n THEN Ret(s, "ProtocolError", <<>>)
                       ELSE LET r == Succeed(s, id, AckRec(p, p.codes), "rx") IN Ret(r.s, r.err, r.evs)
      [] p.type = "PUBACK" ->
             IF early THEN Ret(s, "ProtocolError", <<>>)
             ELSE IF p.pid \notin DOMAIN s.pendPub THEN Ret(s, "ProtocolError", <<>>)
             ELSE LET id == s.pendPub[p.pid] IN
                  IF id \in DOMAIN s.ops /\ s.ops[id].kind = "pub" /\ s.ops[id].qos = 1
                  THEN LET r == Succeed(s, id, AckRec(p, 0), "rx") IN Ret(r.s, r.err, r.evs)
                  ELSE Ret(s, "ProtocolError", <<>>)
      [] p.type = "PUBREC" ->
             IF early THEN Ret(s, "ProtocolError", <<>>)
             ELSE IF p.pid \notin DOMAIN s.pendPub THEN Ret(s, "ProtocolError", <<>>)
             ELSE LET id == s.pendPub[p.pid] IN
                  IF id \notin DOMAIN s.ops THEN Ret(s, "ok", <<>>)
                  ELSE LET o == s.ops[id] IN
                       IF o.kind # "pub" \/ o.qos # 2 THEN Ret(s, "ProtocolError", <<>>)
                       ELSE IF p.rc >= 128 \/ ("pubrec-nomatch-terminal" \in EngDefects /\ p.rc # 0)
                            THEN LET r == Succeed(s, id, AckRec(p, 0), "rx") IN Ret(r.s, r.err, r.evs)
                       ELSE Ret([s EXCEPT !.ops[id].pubrel = TRUE, !.hpQ = Append(@, id)], "ok", <<>>)
      [] p.type = "PUBCOMP" ->
             IF early THEN Ret(s, "ProtocolError", <<>>)
             ELSE IF p.pid \notin DOMAIN s.pendPub THEN Ret(s, "ProtocolError", <<>>)
             ELSE LET id == s.pendPub[p.pid] IN
                  IF id \notin DOMAIN s.ops THEN Ret(s, "PANIC:pubcomp-unwrap", <<>>)
                  ELSE LET o == s.ops[id] IN
                       IF o.kind # "pub" THEN Ret(s, "PANIC:pubcomp-not-publish", <<>>)
                       ELSE IF o.qos = 2 /\ o.pubrel THEN LET r == Succeed(s, id, AckRec(p, 0), "rx") IN Ret(r.s, r.err, r.evs)
                       ELSE Ret(s, "ProtocolError", <<>>)
      [] p.type = "PUBREL" ->
             IF early THEN Ret(s, "ProtocolError", <<>>)
             ELSE LET c == CreateOp([s EXCEPT !.qos2In = @ \ {p.pid}], "pubcomp", [NoAttrs EXCEPT !.apid = p.pid])
                  IN Ret([c.s EXCEPT !.hpQ = Append(@, c.id)], "ok", <<>>)
      [] p.type = "PUBLISH" ->
             IF early THEN Ret(s, "ProtocolError", <<>>)
             ELSE CASE p.qos = 0 -> Ret(s, "ok", <<EvSurface(s, "PUBLISH", p)>>)
                    [] p.qos = 1 -> LET c == CreateOp(s, "puback", [NoAttrs EXCEPT !.apid = p.pid])
                                    IN Ret([c.s EXCEPT !.hpQ = Append(@, c.id)], "ok", <<EvSurface(s, "PUBLISH", p)>>)
                    [] OTHER -> LET fresh == p.pid \notin s.qos2In
                                    c == CreateOp([s EXCEPT !.qos2In = @ \cup {p.pid}], "pubrec", [NoAttrs EXCEPT !.apid = p.pid])
                                IN Ret([c.s EXCEPT !.hpQ = Append(@, c.id)], "ok", IF fresh THEN <<EvSurface(s, "PUBLISH", p)>> ELSE <<>>)
      [] p.type = "DISCONNECT" ->
             IF early THEN Ret(s, "ProtocolError", <<>>)
             ELSE IF s.cfg.ver = 311 THEN Ret(s, "ProtocolError", <<>>)
             ELSE Ret(s, "ConnectionClosed", <<EvSurface(s, "DISCONNECT", p)>>)
      [] p.type = "AUTH" -> Ret(s, "Unimplemented", <<>>)
      [] OTHER -> Ret(s, "ProtocolError", <<>>)

\* inbound alias resolution (InboundAliasResolver::resolve_topic_alias): [s, topic, err]
ResolveInbound(s, p) ==
    IF p.type # "PUBLISH" \/ p.alias = -1 THEN [s |-> s, topic |-> p.topic, err |-> "ok"]
    ELSE IF p.topic = "" THEN
             (IF p.alias \in DOMAIN s.inAl THEN [s |-> s, topic |-> s.inAl[p.alias], err |-> "ok"]
              ELSE [s |-> s, topic |-> "", err |-> "InvalidInboundTopicAlias"])
    ELSE IF p.alias = 0 \/ p.alias > s.cfg.tamIn THEN [s |-> s, topic |-> p.topic, err |-> "InvalidInboundTopicAlias"]
    ELSE [s |-> [s EXCEPT !.inAl = FnPut(@, p.alias, p.topic)], topic |-> p.topic, err |-> "ok"]

Recv(s0, t, p) ==
    LET s == [s0 EXCEPT !.now = t] IN
    IF s.st \in {"Disconnected", "Halted"} THEN Wrap(Ret(s, "InternalStateError", <<>>))
    ELSE IF s.st = "PendingConnack" /\ ((\E i \in 1..Len(s.hpQ) : s.hpQ[i] \in DOMAIN s.ops /\ s.ops[s.hpQ[i]].kind = "connect") \/ s.cur # None \/ s.pwc)
         THEN Wrap(Ret(s, "ProtocolError", <<>>))
    ELSE LET a == ResolveInbound(s, p) IN
         IF a.err # "ok" THEN Wrap(Ret(a.s, a.err, <<>>))
         ELSE LET p2 == IF p.type = "PUBLISH" THEN [p EXCEPT !.topic = a.topic] ELSE p IN
              IF p.type = "PUBLISH" /\ (p2.topic = "" \/ (p.pid = 0 /\ p.qos # 0)) THEN Wrap(Ret(a.s, "PacketValidationFailure", <<>>))
              ELSE IF p.type = "CONNACK" /\ ~ConnackValid(p) THEN Wrap(Ret(a.s, "PacketValidationFailure", <<>>))
              ELSE Wrap(HandlePacket(a.s, p2))

RecvGarbage(s0, t) ==
    LET s == [s0 EXCEPT !.now = t] IN
    IF s.st \in {"Disconnected", "Halted"} THEN Wrap(Ret(s, "InternalStateError", <<>>))
    ELSE IF s.st = "PendingConnack" /\ ((\E i \in 1..Len(s.hpQ) : s.hpQ[i] \in DOMAIN s.ops /\ s.ops[s.hpQ[i]].kind = "connect") \/ s.cur # None \/ s.pwc)
         THEN Wrap(Ret(s, "ProtocolError", <<>>))
    ELSE Wrap(Ret(s, "DecodingFailure", <<>>))

----------------------------------------------------------------------------------------------------
\* reset.  order: the HashMap iteration order of `operations`

Reset(s0, t, order) ==
    LET s == [s0 EXCEPT !.now = t]
        s1 == IF s.st # "Disconnected" THEN [s EXCEPT !.st = "Halted"] ELSE s
        f == FailSeq(s1, order, "ClientClosed", "reset")
    IN Ret([f.s EXCEPT !.pwc = FALSE, !.ops = EmptyFn, !.tmos = {}, !.userQ = <<>>, !.resubQ = <<>>, !.hpQ = <<>>, !.cur = None,
                       !.qos2In = {}, !.alloc = EmptyFn, !.pendPub = EmptyFn, !.pendNon = EmptyFn, !.pwcOps = <<>>,
                       !.settings = [known |-> FALSE], !.nextPid = 1, !.hasConn = FALSE, !.nextPing = None, !.pingTmo = None,
                       !.connackTmo = None, !.enc = 0, !.encTot = 0, !.buf = 0],
           IF IsPanic(f.err) THEN f.err ELSE "ok", f.evs)

ResetOrderOk(s, q) == IsPermutationOf(q, DOMAIN s.ops)
----------------------------------------------------------------------------------------------------
\* state invariants (checked by TLC on every reachable state of the bounded instances, and by
\* EngineTrace.tla on every state the real engine was observed in)

QueueIds(s) == SeqToSet(s.userQ) \cup SeqToSet(s.resubQ) \cup SeqToSet(s.hpQ)
Tracked(s) == QueueIds(s) \cup (IF s.cur = None THEN {} ELSE {s.cur}) \cup SeqToSet(s.pwcOps) \cup Range(s.pendPub) \cup Range(s.pendNon)
NoDupLive(s, q) == \A i, j \in 1..Len(q) : i # j /\ q[i] \in DOMAIN s.ops => q[i] # q[j]

\* C01: every unresolved user operation sits where the engine can still resolve it
UserOpsTrackedIn(s) == \A id \in DOMAIN s.ops : s.ops[id].user => id \in Tracked(s)
\* C04: no live operation is queued twice for (re)transmission (it would be transmitted twice).  The high priority
\* queue is exempt: a server that repeats a PUBREC gets a PUBREL per PUBREC, which MQTT requires.
NoLiveIdTwiceIn(s) == NoDupLive(s, s.userQ) /\ NoDupLive(s, s.resubQ)
                      /\ \A id \in DOMAIN s.ops : ~(id \in SeqToSet(s.userQ) /\ id \in SeqToSet(s.resubQ))

\* C06: the allocated-id table is exactly the bound ids of live operations, injectively
AllocConsistentIn(s) ==
    /\ \A p \in DOMAIN s.alloc : p \in 1..PidMax
    /\ \A id \in DOMAIN s.ops : s.ops[id].pid # 0 => (s.ops[id].pid \in DOMAIN s.alloc /\ s.alloc[s.ops[id].pid] = id)
    /\ \A p \in DOMAIN s.alloc : s.alloc[p] \in DOMAIN s.ops /\ s.ops[s.alloc[p]].pid = p
PendingBoundIn(s) ==
    /\ \A p \in DOMAIN s.pendPub : s.pendPub[p] \in DOMAIN s.ops /\ s.ops[s.pendPub[p]].pid = p
    /\ \A p \in DOMAIN s.pendNon : s.pendNon[p] \in DOMAIN s.ops /\ s.ops[s.pendNon[p]].pid = p

\* C09: never more unacknowledged QoS>0 publishes on the wire than the server allows
ReceiveMaximumIn(s) == s.settings.known /\ s.st = "Connected" => Cardinality(DOMAIN s.pendPub) <= s.settings.rm

\* C08: the reported next service time is never later than the earliest moment work is due.
\* WorkDue is written from the dequeue rules and timers, not from NextServiceTime.
CanDequeue(s, mode) == (Dequeue(s, mode)).id # None
WorkDue(s, t) ==
    \/ s.st \in {"PendingConnack", "Connected"} /\ ~s.pwc /\ s.cur # None
    \/ s.st = "PendingConnack" /\ ~s.pwc /\ s.cur = None /\ CanDequeue(s, "HighPriorityOnly")
    \/ s.st = "Connected" /\ ~s.pwc /\ s.cur = None /\ CanDequeue(s, "All")
    \/ s.st = "Connected" /\ ~s.pwc /\ s.pingTmo = None /\ s.nextPing # None /\ s.nextPing <= t
    \/ s.st = "Connected" /\ s.pingTmo # None /\ s.pingTmo <= t
    \/ s.st \in {"Connected", "PendingDisconnect"} /\ \E r \in s.tmos : r.at <= t
    \/ s.st = "PendingConnack" /\ s.connackTmo <= t
\* the moments worth asking about: now, and every armed timer
DuePoints(s) == {s.now} \cup {x \in ({r.at : r \in s.tmos} \cup {s.pingTmo, s.nextPing, s.connackTmo}) : x # None /\ x >= s.now}
NoStrandedWorkIn(s) ==
    \A t \in DuePoints(s) : WorkDue(s, t) => (NextServiceTime(s, s.now) # None /\ NextServiceTime(s, s.now) <= t)
----------------------------------------------------------------------------------------------------
\* situations worth having visited (non-vacuity of model checking; scenario coverage of recorded runs)

StateWitnesses(s) ==
    LET curOp == IF s.cur # None /\ s.cur \in DOMAIN s.ops THEN s.ops[s.cur] ELSE [kind |-> "", pubrel |-> FALSE, dup |-> FALSE, qos |-> 0]
        has(c, name) == IF c THEN {name} ELSE {}
    IN has(s.st = "Disconnected" /\ s.resubQ # <<>>, "offline-resubmit-queue")
       \cup has(s.st = "Disconnected" /\ s.userQ # <<>>, "offline-user-queue")
       \cup has(s.cur # None, "current-operation-partially-encoded")
       \cup has(s.cur # None /\ s.pwc, "partial-with-write-pending")
       \cup has(s.cur # None /\ ~s.pwc, "partial-with-no-write-pending")
       \cup has(curOp.kind = "connect", "partial-connect")
       \cup has(curOp.kind = "pub" /\ ~curOp.pubrel /\ ~curOp.dup, "partial-first-publish")
       \cup has(curOp.kind = "pub" /\ ~curOp.pubrel /\ curOp.dup, "partial-retransmitted-publish")
       \cup has(curOp.kind = "pub" /\ curOp.pubrel /\ s.cur \in Range(s.pendPub), "partial-pubrel-same-connection")
       \cup has(curOp.kind = "pub" /\ curOp.pubrel /\ s.cur \notin Range(s.pendPub), "partial-pubrel-resumed")
       \cup has(curOp.kind \in {"sub", "unsub"}, "partial-subscribe")
       \cup has(curOp.kind \in {"puback", "pubrec", "pubcomp"}, "partial-ack")
       \cup has(curOp.kind = "disconnect", "partial-disconnect")
       \cup has(s.cur # None /\ s.cur \notin DOMAIN s.ops, "current-operation-gone")
       \cup has(s.st = "Connected" /\ s.slow > 0, "slow-start-active")
       \cup has(s.st = "Connected" /\ s.settings.known /\ Cardinality(DOMAIN s.pendPub) >= s.settings.rm, "at-receive-maximum")
       \cup has(DOMAIN s.alloc # {} /\ \E p \in DOMAIN s.alloc : p >= s.nextPid, "packet-id-cursor-behind-live-id")
       \cup has(\E i \in 1..Len(s.hpQ) : s.hpQ[i] \in DOMAIN s.ops /\ s.ops[s.hpQ[i]].pubrel, "pubrel-queued")
       \cup has(\E id \in QueueIds(s) : id \notin DOMAIN s.ops, "stale-id-in-queue")
       \cup has(s.tmos # {}, "ack-timeout-armed")
       \cup has(s.pingTmo # None, "ping-outstanding")
       \cup has(s.st = "PendingDisconnect", "pending-disconnect")
       \cup has(s.st = "Halted", "halted")
       \cup has(s.qos2In # {}, "inbound-qos2-held")
       \cup has(DOMAIN s.outAl.map # {}, "outbound-alias-bound")
       \cup has(DOMAIN s.inAl # {}, "inbound-alias-bound")
       \cup has(Cardinality(DOMAIN s.pendPub) >= 2, "two-publishes-in-flight")
       \cup has(\E id \in DOMAIN s.ops : s.ops[id].intr >= 1, "interrupted-operation")
=============================================================================
