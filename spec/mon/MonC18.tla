------------------------------- MODULE MonC18 -------------------------------
(* C18 - ack timeouts and the interrupted-retry limit fire exactly when specified.  The clock of
   an operation starts at the service call that wrote the last byte of its PUBLISH / SUBSCRIBE /
   UNSUBSCRIBE on the current connection; the connection ending stops it. *)
EXTENDS MonBase

Init0 == [run |-> 0, skip |-> FALSE, errs |-> <<>>,
          limit |-> -1,
          ops |-> EmptyMap,      \* op -> [tmo, w, res, cnt, sentConn, ack]
          owner |-> EmptyMap,    \* pid -> op (current session)
          check |-> "none", checkT |-> 0, live |-> FALSE]

\* "an acknowledged operation ... fails at the first service at or after T": a QoS 0 publish is not an acknowledged
\* operation, so nothing is demanded of it (the engine applies the timeout to it while its write completion is outstanding)
Due(o, t) == ~o.res /\ o.ackd /\ o.tmo >= 0 /\ o.w >= 0 /\ t >= o.w + o.tmo

Deferred(m, e) ==
    CASE m.check = "service" ->
             IF \E k \in DOMAIN m.ops : Due(m.ops[k], m.checkT) THEN Breach(m, e, "timeout-late") ELSE [m EXCEPT !.check = "none"]
      [] m.check = "close" ->
             IF m.limit >= 0 /\ \E k \in DOMAIN m.ops : ~m.ops[k].res /\ m.ops[k].cnt > m.limit THEN Breach(m, e, "retries-late") ELSE [m EXCEPT !.check = "none"]
      [] OTHER -> m

OnComplete(m, e) ==
    IF ~Has(m.ops, e.op) THEN m
    ELSE LET o == m.ops[e.op]
             done == [m EXCEPT !.ops[e.op].res = TRUE]
         IN IF e.err = "AckTimeout" THEN
                IF o.tmo < 0 THEN Breach(m, e, "timeout-unconfigured")
                ELSE IF o.w < 0 \/ e.t < o.w + o.tmo THEN Breach(m, e, "timeout-early")
                ELSE done
            ELSE IF e.err = "MaxInterruptedRetriesExceeded" THEN
                IF m.limit < 0 \/ o.cnt <= m.limit \/ e.during # "close" THEN Breach(m, e, "retries-early") ELSE done
            ELSE done

OnClose(m) ==
    [m EXCEPT !.live = FALSE, !.check = "close",
              !.ops = MapAll(@, LAMBDA o : [o EXCEPT !.w = -1, !.sentConn = FALSE,
                                                     !.cnt = IF o.sentConn /\ o.ackd /\ ~o.res THEN @ + 1 ELSE @])]

Apply(m, e) ==
    IF e.ev = "Cfg" THEN [Init0 EXCEPT !.run = e.run, !.errs = m.errs, !.limit = e.retries]
    ELSE IF m.skip THEN m
    ELSE IF e.ev = "Complete" THEN OnComplete(m, e)
    ELSE IF e.ev = "Tx" THEN
             (IF e.partial = 1 THEN m
              ELSE IF e.op # 0 /\ Has(m.ops, e.op) /\ e.type \in {"PUBLISH", "SUBSCRIBE", "UNSUBSCRIBE"}
                   THEN [m EXCEPT !.ops[e.op].w = e.t, !.ops[e.op].sentConn = TRUE, !.owner = Put(@, e.pid, e.op)]
              \* on a resumed connection the PUBREL is the operation's packet: if its PUBLISH was not written on this
              \* connection the clock starts with the PUBREL
              ELSE IF e.type = "PUBREL" /\ Has(m.owner, e.pid) /\ Has(m.ops, m.owner[e.pid])
                   THEN [m EXCEPT !.ops[m.owner[e.pid]].sentConn = TRUE, !.ops[m.owner[e.pid]].w = IF @ = -1 THEN e.t ELSE @]
              ELSE m)
    ELSE IF Follower(e) THEN m
    ELSE LET d == Deferred(m, e) IN
         IF d.skip THEN d
         ELSE CASE e.ev = "Submit" -> [d EXCEPT !.ops = Put(@, e.op, [tmo |-> e.tmo, w |-> -1, res |-> FALSE, cnt |-> 0, sentConn |-> FALSE, ackd |-> NeedsAck(e.kind, e.qos)])]
                [] e.ev = "Service" /\ e.result = "ok" /\ e.state \in {"Connected", "PendingDisconnect"} /\ d.live -> [d EXCEPT !.check = "service", !.checkT = e.t]
                [] e.ev = "Rx" /\ e.type = "CONNACK" /\ e.result = "ok" ->
                       [d EXCEPT !.live = TRUE, !.owner = IF e.sp = 0 THEN EmptyMap ELSE @]
                [] e.ev = "Close" -> OnClose(d)
                [] e.ev = "Open" -> [d EXCEPT !.live = FALSE, !.ops = MapAll(@, LAMBDA o : [o EXCEPT !.w = -1, !.sentConn = FALSE])]
                [] e.ev = "Reset" -> [d EXCEPT !.live = FALSE, !.check = "none", !.owner = EmptyMap, !.ops = MapAll(@, LAMBDA o : [o EXCEPT !.w = -1, !.sentConn = FALSE])]
                [] OTHER -> d
=============================================================================
