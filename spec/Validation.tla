----------------------------- MODULE Validation -----------------------------
(***************************************************************************************************
 Topic names and topic filters as the MQTT specifications define them (MQTT 5.0 section 4.7
 "Topic Names and Topic Filters" and 4.8.2 "Shared Subscriptions"; the same grammar in 3.1.1
 section 4.7), written independently of gneiss-mqtt/src/validate.rs.

 A string is a sequence of tokens from a small alphabet; the token "/" is the level separator, "+"
 and "#" are the wildcard characters, "$share" is the literal text "$share", "a" an ordinary
 character.  Adjacent tokens concatenate ("$share" followed by "a" is the level "$sharea", which is
 not the share prefix).  TLC walks every string up to a length bound (one state per string) and
 prints the verdicts; the harness asks the crate's validators about the same strings, and MonC16
 judges the answers: a filter the specification forbids that validation lets through would be
 sent (C16 "valid topic names and filters"), a filter it allows that validation refuses is a valid
 operation rejected, and a shared / wildcard filter not recognised as such escapes the check
 against the server's announced capabilities.
 ***************************************************************************************************)
EXTENDS Naturals, Sequences, FiniteSets, TLC, Json, SequencesExt

CONSTANTS Tokens, MaxLen

\* split a token sequence into levels at "/"
RECURSIVE Levels(_)
Levels(s) ==
    IF \A i \in 1..Len(s) : s[i] # "/" THEN <<s>>
    ELSE LET i == CHOOSE j \in 1..Len(s) : s[j] = "/" /\ \A k \in 1..(j - 1) : s[k] # "/"
         IN <<SubSeq(s, 1, i - 1)>> \o Levels(SubSeq(s, i + 1, Len(s)))

HasWildChar(level) == \E i \in 1..Len(level) : level[i] \in {"+", "#"}

\* 4.7.1: a topic name is at least one character long and contains no wildcard character
TopicNameValid(s) == s # <<>> /\ ~HasWildChar(s)

\* 4.7.1.2 / 4.7.1.3: "#" only as the last level and alone in it; "+" alone in its level
PlainFilterValid(s) ==
    /\ s # <<>>
    /\ LET ls == Levels(s) IN
       \A i \in 1..Len(ls) :
           \/ ~HasWildChar(ls[i])
           \/ ls[i] = <<"+">>
           \/ ls[i] = <<"#">> /\ i = Len(ls)

StartsWithSharePrefix(s) == Len(s) >= 2 /\ s[1] = "$share" /\ s[2] = "/"

\* 4.8.2: $share/{ShareName}/{filter}: ShareName at least one character, without "/", "+", "#"; followed by "/" and a topic filter
SharedFilterValid(s) ==
    /\ StartsWithSharePrefix(s)
    /\ LET ls == Levels(s) IN
       /\ Len(ls) >= 3
       /\ ls[2] # <<>> /\ ~HasWildChar(ls[2])
       /\ LET rest == SubSeq(s, Len(ls[2]) + 4, Len(s)) IN PlainFilterValid(rest)

FilterValid(s) == IF StartsWithSharePrefix(s) THEN SharedFilterValid(s) ELSE PlainFilterValid(s)
FilterShared(s) == SharedFilterValid(s)
FilterWild(s) == FilterValid(s) /\ \E i \in 1..Len(s) : s[i] \in {"+", "#"}

\* every token sequence of length 0..MaxLen
Strings == UNION {[1..n -> Tokens] : n \in 0..MaxLen}

VARIABLE rest
Init == rest = SetToSeq(Strings)
Next == /\ rest # <<>>
        /\ LET s == Head(rest) IN
           PrintT(<<"FILTER", ToJson([tokens |-> s, topicValid |-> TopicNameValid(s), filterValid |-> FilterValid(s),
                                      shared |-> FilterShared(s), wild |-> FilterWild(s)])>>)
        /\ rest' = Tail(rest)
Spec == Init /\ [][Next]_rest

\* sanity of the transcription: what is a valid topic name is also a valid filter unless it begins with the share prefix
NamesAreFilters == rest # <<>> => (LET s == Head(rest) IN (TopicNameValid(s) /\ ~StartsWithSharePrefix(s)) => FilterValid(s))
=============================================================================
