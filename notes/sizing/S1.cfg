SPECIFICATION Spec
CONSTANTS MaxOps = 2  MaxConns = 2  PidMax = 3  Budgets = {0, 1, 4}
INVARIANT NoDupQueueEntries
INVARIANT Tracked
CHECK_DEADLOCK FALSE
