SPECIFICATION Spec
CONSTANTS MaxReq = 3  MaxAttempts = 3
INVARIANT WellFormed
INVARIANT LoopNeverDies
CHECK_DEADLOCK FALSE
