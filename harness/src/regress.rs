//! Source S3: one minimal history per finding (fixed or known), kept in every run so that a
//! reintroduced defect is reported again.  Each entry: (name, script JSON).

use crate::sim::Script;

pub fn scripts() -> Vec<(String, Script)> {
    let raw: Vec<(&str, &str)> = vec![
        // #1 C08: packet larger than the buffer, nothing else queued -> half-encoded operation, no wake-up
        ("f01-lost-wakeup-big-publish", r#"{"cfg":{"faithful":true,"cap":64},"steps":[{"a":"Open"},{"a":"Run","ms":10},{"a":"Submit","kind":"pub","qos":0,"size":300},{"a":"Quiesce"},{"a":"Reset"}]}"#),
        ("f01-lost-wakeup-big-publish-qos1", r#"{"cfg":{"faithful":true,"cap":16,"ka":0},"steps":[{"a":"Open"},{"a":"Run","ms":10},{"a":"Submit","kind":"pub","qos":1,"size":100},{"a":"Submit","kind":"sub","entries":3},{"a":"Quiesce"},{"a":"Reset"}]}"#),
        // #1b C08: CONNECT larger than the buffer
        ("f01-lost-wakeup-big-connect", r#"{"cfg":{"faithful":true,"cap":16,"cid":"a-client-identifier-that-needs-several-writes-to-leave-the-buffer"},"steps":[{"a":"Open"},{"a":"Quiesce"},{"a":"Reset"}]}"#),
        // #4 C11/C18: ack timeout fires on the operation whose PUBREL is seated as current operation
        ("f04-ack-timeout-on-seated-pubrel", r#"{"cfg":{},"steps":[{"a":"Open"},{"a":"Drain"},{"a":"Connack"},{"a":"Submit","kind":"pub","qos":2,"tmo":1000},{"a":"Drain"},{"a":"InPub","qos":1},{"a":"Ack"},{"a":"Service","cap":7},{"a":"Advance","ms":1010},{"a":"Service","cap":7},{"a":"WriteDone"},{"a":"Service","cap":4096},{"a":"WriteDone"},{"a":"Reset"}]}"#),
        // #5 C11/C07: CONNACK after the CONNECT was encoded but before its write completion
        ("f05-connack-before-connect-flushed", r#"{"cfg":{},"steps":[{"a":"Open"},{"a":"Service","cap":4096},{"a":"Connack"},{"a":"Reset"}]}"#),
        // #6 C04: retransmitted QoS 2 publish, PUBREC, PUBREL seated at close -> queued twice
        ("f06-double-pubrel", r#"{"cfg":{},"steps":[{"a":"Open"},{"a":"Drain"},{"a":"Connack"},{"a":"Submit","kind":"pub","qos":2},{"a":"Drain"},{"a":"Close"},
            {"a":"Open"},{"a":"Drain"},{"a":"Connack","sp":true},{"a":"Drain"},{"a":"InPub","qos":1},{"a":"Ack"},{"a":"Service","cap":7},{"a":"Close"},
            {"a":"Open"},{"a":"Drain"},{"a":"Connack","sp":true},{"a":"Drain"},{"a":"Ack"},{"a":"Ack"},{"a":"Drain"},{"a":"Reset"}]}"#),
        ("f06-double-publish-no-session", r#"{"cfg":{},"steps":[{"a":"Open"},{"a":"Drain"},{"a":"Connack"},{"a":"Submit","kind":"pub","qos":2},{"a":"Drain"},{"a":"Close"},
            {"a":"Open"},{"a":"Drain"},{"a":"Connack","sp":true},{"a":"Drain"},{"a":"InPub","qos":1},{"a":"Ack"},{"a":"Service","cap":7},{"a":"Close"},
            {"a":"Open"},{"a":"Drain"},{"a":"Connack","sp":false},{"a":"Drain"},{"a":"Ack"},{"a":"Drain"},{"a":"Ack"},{"a":"Drain"},{"a":"Reset"}]}"#),
        // #7 C17: LRU resolver binds an alias, the publish then fails last-chance validation
        ("f07-alias-desync", r#"{"cfg":{"resolver":"lru:2"},"steps":[{"a":"Open"},{"a":"Drain"},{"a":"Connack","tam":2,"ret":0},{"a":"Submit","kind":"pub","qos":0,"retain":true,"topic":"t1"},{"a":"Submit","kind":"pub","qos":0,"topic":"t1"},{"a":"Drain"},{"a":"Reset"}]}"#),
        // #8 C16: 70000-byte user property value
        ("f08-user-property-value-length", r#"{"cfg":{},"steps":[{"a":"Open"},{"a":"Drain"},{"a":"Connack"},{"a":"Submit","kind":"pub","qos":0,"variant":"bigprop"},{"a":"Drain","cap":4096},{"a":"Reset"}]}"#),
        // #9 C02: subscription identifier encoded as a four-byte integer
        ("f09-subscription-identifier-encoding", r#"{"cfg":{},"steps":[{"a":"Open"},{"a":"Drain"},{"a":"Connack"},{"a":"Submit","kind":"sub","variant":"subid"},{"a":"Drain"},{"a":"Reset"}]}"#),
        // #10 C03: UNSUBACK reason code 0x8F (Topic Filter Invalid) is legal
        ("f10-unsuback-8f", r#"{"cfg":{},"steps":[{"a":"Open"},{"a":"Drain"},{"a":"Connack"},{"a":"Submit","kind":"unsub"},{"a":"Drain"},{"a":"Raw","hex":"b0040001008f","legal":true,"name":"UNSUBACK"},{"a":"Reset"}]}"#),
        // #17 C11/C01: a packet whose trailing encoding steps are empty finishes in a service call that appends nothing
        ("f17-zero-byte-completion-connect", r#"{"cfg":{"faithful":true,"cap":7,"cid":"","ack_delay":50,"tam_in":1,"sei":0},"steps":[{"a":"Open"},{"a":"Run","ms":100},{"a":"Close"},{"a":"Open"},{"a":"Run","ms":100},{"a":"Quiesce"},{"a":"Reset"}]}"#),
        // known finding C11 late-ack-after-timeout: the broker answers after the client gave up on the operation
        ("k01-late-ack-after-ack-timeout", r#"{"cfg":{},"steps":[{"a":"Open"},{"a":"Drain"},{"a":"Connack"},{"a":"Submit","kind":"sub","tmo":100},{"a":"Drain"},{"a":"Advance","ms":150},{"a":"Service","cap":4096},{"a":"Ack"},{"a":"Reset"}]}"#),
        // #13 C14: keep alive of one second: K/2 computed in whole seconds
        ("f13-keep-alive-one-second", r#"{"cfg":{"faithful":true,"ka":1,"ping_tmo":30000,"ack_delay":100},"steps":[{"a":"Open"},{"a":"Run","ms":3500},{"a":"Quiesce"},{"a":"Reset"}]}"#),
    ];
    raw.into_iter().map(|(n, j)| {
        let mut s: Script = serde_json::from_str(j).unwrap_or_else(|e| panic!("regression script {}: {}", n, e));
        s.cfg.src = format!("S3:{}", n);
        (n.to_string(), s)
    }).collect()
}
