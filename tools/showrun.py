#!/usr/bin/env python3
"""Print one run of an ndjson trace compactly: showrun.py trace.ndjson RUN [SEQ_FROM [SEQ_TO]]"""
import json, sys
path, run = sys.argv[1], int(sys.argv[2])
lo = int(sys.argv[3]) if len(sys.argv) > 3 else 0
hi = int(sys.argv[4]) if len(sys.argv) > 4 else 10**9
for l in open(path):
    e = json.loads(l)
    if e['run'] != run or not (lo <= e['seq'] <= hi):
        continue
    ev = e.pop('ev'); e.pop('run')
    if ev == 'Cfg':
        print(ev, json.dumps(e)); continue
    keep = {k: v for k, v in e.items() if v not in (-1, "", 0) or k in ('t', 'op', 'ok', 'out', 'seq')}
    for k in ('hash', 'ohash', 'alllegal', 'chunks', 'size'):
        keep.pop(k, None)
    print(ev, json.dumps(keep))
