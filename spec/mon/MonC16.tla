------------------------------- MODULE MonC16 -------------------------------
(* C16 - nothing that breaks the server's announced limits or the static packet rules is sent,
   and nothing that satisfies them is rejected by validation.  In engine runs a submitted
   operation names its deviation, if any, in `variant`; the complete input-space enumeration is
   the job of Validation.tla.  The timing clause (static rules at submission) has its own rule. *)
EXTENDS MonBase

StaticInvalid == {"badfilter", "emptytopic", "wildtopic", "bigprop", "nolocalshared"}

Init0 == [run |-> 0, skip |-> FALSE, errs |-> <<>>,
          ver |-> 5,
          ops |-> EmptyMap,      \* op -> [kind, qos, retain, variant, len]
          s |-> [known |-> FALSE]]   \* settings of the current connection

Allowed(m, o) ==
    /\ o.variant \notin StaticInvalid
    /\ (m.s.known => /\ (o.kind = "pub" => o.qos <= m.s.mqos /\ (o.retain = 1 => m.s.ret = 1))
                     /\ (o.variant = "wild" => m.s.wild = 1)
                     /\ (o.variant = "shared" => m.s.shared = 1)
                     /\ (o.variant = "subid" => m.s.subid = 1))

\* conservative: do not judge size-related rejections unless the limit is far away
SizeIrrelevant(m, o) == ~m.s.known \/ m.s.mps >= o.len + 4000

Apply(m, e) ==
    IF e.ev = "Cfg" THEN [Init0 EXCEPT !.run = e.run, !.errs = m.errs, !.ver = e.ver]
    ELSE IF m.skip THEN m
    ELSE CASE e.ev = "Submit" ->
                  LET m2 == [m EXCEPT !.ops = Put(@, e.op, [kind |-> e.kind, qos |-> e.qos, retain |-> e.retain, variant |-> e.variant, len |-> e.len])]
                  IN IF e.variant \in StaticInvalid THEN [Breach(m2, e, "timing") EXCEPT !.skip = FALSE] ELSE m2
           [] e.ev = "Reject" -> IF e.variant \notin StaticInvalid THEN Breach(m, e, "valid-rejected") ELSE m
           [] e.ev = "Settings" -> [m EXCEPT !.s = [known |-> TRUE, mqos |-> e.mqos, ret |-> e.ret, wild |-> e.wild, shared |-> e.shared, subid |-> e.subid, mps |-> e.mps]]
           [] e.ev \in {"Open", "Close", "Reset"} -> [m EXCEPT !.s = [known |-> FALSE]]
           [] e.ev = "Tx" /\ e.partial = 0 /\ e.op # 0 /\ Has(m.ops, e.op) /\ e.type \in {"PUBLISH", "SUBSCRIBE", "UNSUBSCRIBE"} ->
                  IF ~Allowed(m, m.ops[e.op]) \/ (m.s.known /\ e.size > m.s.mps) THEN Breach(m, e, "invalid-sent") ELSE m
           [] e.ev = "Complete" /\ e.ok = 1 /\ Has(m.ops, e.op) /\ m.ops[e.op].variant \in StaticInvalid -> Breach(m, e, "invalid-sent")
           [] e.ev = "Complete" /\ e.err = "PacketValidationFailure" /\ Has(m.ops, e.op) ->
                  IF Allowed(m, m.ops[e.op]) /\ SizeIrrelevant(m, m.ops[e.op]) /\ m.s.known THEN Breach(m, e, "valid-rejected") ELSE m
           [] OTHER -> m
=============================================================================
