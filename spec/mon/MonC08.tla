------------------------------- MODULE MonC08 -------------------------------
(* C08 - the service-time contract never strands work and never spins.  Judged on runs driven by
   the faithful driver (service only at reported times and after each delivered event) against a
   responsive broker. *)
EXTENDS MonBase

Init0 == [run |-> 0, skip |-> FALSE, errs |-> <<>>,
          faithful |-> FALSE,
          atQuiesce |-> FALSE,   \* the last marker was a Quiesce on a live connection with a responsive broker
          qstate |-> "",
          idle |-> 0,            \* consecutive service calls, at a reported "now", that did nothing
          lastT |-> -1, lastState |-> ""]

Apply(m, e) ==
    IF e.ev = "Cfg" THEN [Init0 EXCEPT !.run = e.run, !.errs = m.errs, !.faithful = (e.faithful = 1)]
    ELSE IF m.skip \/ ~m.faithful THEN m
    ELSE CASE e.ev = "PumpLimit" -> Breach(m, e, "spin")
           [] e.ev = "Quiesce" ->
                  IF e.open = 1 /\ e.responsive = 1 /\ e.state = "PendingConnack" THEN Breach(m, e, "stranded")
                  ELSE [m EXCEPT !.atQuiesce = (e.open = 1 /\ e.responsive = 1 /\ e.state = "Connected"), !.qstate = e.state]
           [] e.ev = "Snapshot" /\ m.atQuiesce ->
                  IF e.unresolved # 0 THEN Breach(m, e, "stranded") ELSE [m EXCEPT !.atQuiesce = FALSE]
           [] e.ev = "Service" ->
                  IF e.out = 0 /\ e.result = "ok" /\ e.t = m.lastT /\ e.state = m.lastState
                  THEN (IF m.idle + 1 >= 4 THEN Breach(m, e, "spin") ELSE [m EXCEPT !.idle = @ + 1, !.atQuiesce = FALSE])
                  ELSE [m EXCEPT !.idle = 0, !.lastT = e.t, !.lastState = e.state, !.atQuiesce = FALSE]
           [] e.ev \in {"Complete", "Tx", "Rx", "Submit", "WriteDone", "Open", "Close", "Reset"} -> [m EXCEPT !.idle = 0, !.atQuiesce = FALSE, !.lastT = -1]
           [] OTHER -> m
=============================================================================
