------------------------------- MODULE MonC10 -------------------------------
(* C10 - operations go out in submission order; retransmissions first after a resumed reconnect.
   Operation numbers are the harness's submission sequence numbers.  "In flight" = a complete
   PUBLISH transmission earlier in this session life, still unresolved at the CONNACK. *)
EXTENDS MonBase

Init0 == [run |-> 0, skip |-> FALSE, errs |-> <<>>,
          sent |-> {},           \* QoS>0 publishes completely transmitted in this session life, unresolved
          retx |-> {},           \* of those, the ones to retransmit on the current (resumed) connection
          seen |-> {},           \* operations already transmitted on this connection
          owner |-> EmptyMap,    \* packet id -> QoS>0 publish it was sent with (this session life)
          recd |-> {},           \* packet ids a PUBREC arrived for on this connection (a PUBREL for one of them is an answer)
          lastFresh |-> 0, lastRetx |-> 0, freshStarted |-> FALSE]

Apply(m, e) ==
    IF e.ev = "Cfg" THEN [Init0 EXCEPT !.run = e.run, !.errs = m.errs]
    ELSE IF m.skip THEN m
    ELSE CASE e.ev = "Tx" /\ e.partial = 0 /\ e.op # 0 /\ e.type \in {"PUBLISH", "SUBSCRIBE", "UNSUBSCRIBE"} /\ e.op \notin m.seen ->
                  LET track == IF e.type = "PUBLISH" /\ e.qos > 0 THEN m.sent \cup {e.op} ELSE m.sent
                      mo == [m EXCEPT !.owner = IF e.type = "PUBLISH" /\ e.qos > 0 THEN Put(@, e.pid, e.op) ELSE @]
                  IN IF e.op \in m.retx THEN
                         IF m.freshStarted THEN Breach(m, e, "retx-not-first")
                         ELSE IF e.op <= m.lastRetx THEN Breach(m, e, "retx-order")
                         ELSE [mo EXCEPT !.seen = @ \cup {e.op}, !.lastRetx = e.op, !.sent = track]
                     ELSE IF e.op <= m.lastFresh THEN Breach(m, e, "order")
                     ELSE [mo EXCEPT !.seen = @ \cup {e.op}, !.lastFresh = e.op, !.freshStarted = TRUE, !.sent = track]
           \* a QoS 2 publish whose PUBREC arrived on an earlier connection is retransmitted as its PUBREL: the same order applies
           [] e.ev = "Tx" /\ e.partial = 0 /\ e.type = "PUBREL" /\ Has(m.owner, e.pid) /\ e.pid \notin m.recd
                /\ m.owner[e.pid] \in m.retx /\ m.owner[e.pid] \notin m.seen ->
                  LET op == m.owner[e.pid] IN
                  IF m.freshStarted THEN Breach(m, e, "retx-not-first")
                  ELSE IF op <= m.lastRetx THEN Breach(m, e, "retx-order")
                  ELSE [m EXCEPT !.seen = @ \cup {op}, !.lastRetx = op]
           [] e.ev = "Rx" /\ e.type = "PUBREC" -> [m EXCEPT !.recd = @ \cup {e.pid}]
           [] e.ev = "Complete" -> [m EXCEPT !.sent = @ \ {e.op}, !.retx = @ \ {e.op}]
           [] e.ev = "Rx" /\ e.type = "CONNACK" /\ e.result = "ok" ->
                  IF e.sp = 1 THEN [m EXCEPT !.retx = m.sent] ELSE [m EXCEPT !.retx = {}, !.sent = {}, !.owner = EmptyMap]
           [] e.ev \in {"Open", "Close"} -> [m EXCEPT !.seen = {}, !.recd = {}, !.retx = {}, !.lastFresh = 0, !.lastRetx = 0, !.freshStarted = FALSE]
           [] e.ev = "Reset" -> [m EXCEPT !.sent = {}, !.retx = {}, !.seen = {}, !.recd = {}, !.owner = EmptyMap, !.lastFresh = 0, !.lastRetx = 0, !.freshStarted = FALSE]
           [] OTHER -> m
=============================================================================
