//! Runs lifecycle / byte-pump / back-off scenarios against the REAL tokio client
//! (`gneiss_mqtt::client::new_tokio_client`, public API) over a scripted in-memory transport, on a
//! current-thread runtime with paused (virtual) time, and records what the client did as ndjson:
//! the client's event stream, the packets it wrote (decoded by the reference codec), the results of
//! submitted operations, connection attempts with their virtual timestamps, and whether the event
//! loop is still alive at the end.  It does not judge: verdicts come from the TLA+ monitors.

use gneiss_mqtt::client::config::*;
use gneiss_mqtt::client::*;
use gneiss_mqtt::mqtt::*;
use serde::{Deserialize, Serialize};
use serde_json::{json, Value};
use std::collections::VecDeque;
use std::future::Future;
use std::io::{BufRead, Write};
use std::pin::Pin;
use std::sync::{Arc, Mutex};
use std::task::{Context, Poll, Waker};
use std::time::Duration;
use tokio::io::{AsyncRead, AsyncWrite, ReadBuf};
use verif_harness::refcodec as rc;
use verif_harness::refcodec::{Packet, V};
use verif_harness::trace::Trace;

// ---- scripted transport ----------------------------------------------------------------------

#[derive(Default)]
struct Shared {
    inbox: VecDeque<u8>,
    eof: bool,
    read_err: bool,
    read_chunk: usize,        // 0 = unlimited
    written: Vec<u8>,
    write_chunk: usize,       // 0 = unlimited
    write_stall: bool,
    /// accept this many more bytes, then stall (a transport under back-pressure takes part of a buffer and then blocks)
    write_budget: Option<usize>,
    write_err: bool,
    shutdown_by_client: bool,
    dropped: bool,
    read_waker: Option<Waker>,
    write_waker: Option<Waker>,
    parsed: usize,
    fed: Vec<u8>,
    /// the transport itself answers the CONNECT with a success CONNACK the instant it has been written completely
    auto_connack: bool,
    connack_sent: bool,
    /// after the CONNACK has been consumed: end the connection (EOF) after this much REAL time (the client measures
    /// connection lifetimes with std::time::Instant, which a paused tokio clock does not virtualise)
    close_after_real_us: Option<u64>,
    close_polls: u32,
    /// the handshake fails: after this much real time the transport answers the CONNECT with a failing CONNACK ("reject") or ends ("eof")
    fail_after_real_us: Option<u64>,
    fail_with_connack: bool,
    connect_seen: bool,
}

struct ScriptedStream(Arc<Mutex<Shared>>);

impl Drop for ScriptedStream { fn drop(&mut self) { self.0.lock().unwrap().dropped = true; } }

impl AsyncRead for ScriptedStream {
    fn poll_read(self: Pin<&mut Self>, cx: &mut Context<'_>, buf: &mut ReadBuf<'_>) -> Poll<std::io::Result<()>> {
        let mut s = self.0.lock().unwrap();
        if !s.inbox.is_empty() {
            let mut n = buf.remaining().min(s.inbox.len());
            if s.read_chunk > 0 { n = n.min(s.read_chunk); }
            let bytes: Vec<u8> = s.inbox.drain(..n).collect();
            buf.put_slice(&bytes);
            return Poll::Ready(Ok(()));
        }
        if s.read_err { return Poll::Ready(Err(std::io::Error::from(std::io::ErrorKind::ConnectionReset))); }
        if s.eof { return Poll::Ready(Ok(())); }
        if s.connect_seen {
            if let Some(us) = s.fail_after_real_us {
                s.close_polls += 1;
                if s.close_polls <= 3 { cx.waker().wake_by_ref(); return Poll::Pending; }
                let with_connack = s.fail_with_connack;
                s.fail_after_real_us = None;
                drop(s);
                if us > 0 { std::thread::sleep(Duration::from_micros(us)); }
                let mut s = self.0.lock().unwrap();
                if with_connack {
                    let bytes = rc::encode(&Packet::new(rc::CONNACK).with("session_present", V::Flag(false)).with("reason_code", V::U(0x87)), true, None);
                    s.fed.extend(bytes.iter());
                    let n = buf.remaining().min(bytes.len());
                    buf.put_slice(&bytes[..n]);
                    s.eof = true;
                    return Poll::Ready(Ok(()));
                }
                s.eof = true;
                return Poll::Ready(Ok(()));
            }
        }
        if s.connack_sent {
            if let Some(us) = s.close_after_real_us {
                // let the listener callbacks of the CONNACK run first, then burn the real time, then end the connection
                s.close_polls += 1;
                if s.close_polls <= 3 { cx.waker().wake_by_ref(); return Poll::Pending; }
                drop(s);
                if us > 0 { std::thread::sleep(Duration::from_micros(us)); }
                self.0.lock().unwrap().eof = true;
                return Poll::Ready(Ok(()));
            }
        }
        s.read_waker = Some(cx.waker().clone());
        Poll::Pending
    }
}

impl AsyncWrite for ScriptedStream {
    fn poll_write(self: Pin<&mut Self>, cx: &mut Context<'_>, data: &[u8]) -> Poll<std::io::Result<usize>> {
        let mut s = self.0.lock().unwrap();
        if s.write_err { return Poll::Ready(Err(std::io::Error::from(std::io::ErrorKind::BrokenPipe))); }
        if s.write_stall || s.write_budget == Some(0) { s.write_waker = Some(cx.waker().clone()); return Poll::Pending; }
        let mut n = data.len();
        if s.write_chunk > 0 { n = n.min(s.write_chunk); }
        if let Some(b) = s.write_budget { n = n.min(b); s.write_budget = Some(b - n); }
        s.written.extend_from_slice(&data[..n]);
        if s.fail_after_real_us.is_some() && !s.connect_seen {
            let framed = rc::frame(&s.written);
            if framed.frames.iter().any(|(first, _, _, _)| first >> 4 == rc::CONNECT) { s.connect_seen = true; if let Some(w) = s.read_waker.take() { w.wake(); } }
        }
        if s.auto_connack && !s.connack_sent {
            let framed = rc::frame(&s.written);
            if framed.frames.iter().any(|(first, _, _, _)| first >> 4 == rc::CONNECT) {
                let bytes = rc::encode(&Packet::new(rc::CONNACK).with("session_present", V::Flag(false)).with("reason_code", V::U(0)), true, None);
                s.inbox.extend(bytes.iter()); s.fed.extend(bytes.iter());
                s.connack_sent = true;
                if let Some(w) = s.read_waker.take() { w.wake(); }
            }
        }
        Poll::Ready(Ok(n))
    }
    fn poll_flush(self: Pin<&mut Self>, _: &mut Context<'_>) -> Poll<std::io::Result<()>> { Poll::Ready(Ok(())) }
    fn poll_shutdown(self: Pin<&mut Self>, _: &mut Context<'_>) -> Poll<std::io::Result<()>> { self.0.lock().unwrap().shutdown_by_client = true; Poll::Ready(Ok(())) }
}

fn wake(s: &mut Shared) { if let Some(w) = s.read_waker.take() { w.wake(); } if let Some(w) = s.write_waker.take() { w.wake(); } }

// ---- scripts ------------------------------------------------------------------------------------

fn d_true() -> bool { true }
fn d_ms() -> u64 { 10 }
fn d_ok() -> String { "ok".into() }
fn d_any() -> String { "any".into() }
fn d_one() -> usize { 1 }

#[derive(Clone, Debug, Serialize, Deserialize, Default)]
struct ClientCfg {
    #[serde(default)] src: String,
    #[serde(default)] base_ms: Option<u64>,
    #[serde(default)] max_ms: Option<u64>,
    #[serde(default)] stable_ms: Option<u64>,
    /// microsecond forms (C19); *_tok: "" | "durmax" (Duration::MAX) | "halfplus" (just above half of Duration::MAX)
    #[serde(default)] base_us: Option<u64>,
    #[serde(default)] max_us: Option<u64>,
    #[serde(default)] stable_us: Option<u64>,
    #[serde(default)] base_tok: String,
    #[serde(default)] max_tok: String,
    /// timer granularity of the driver (tokio timers: 1 ms) and tolerance when comparing a measured lifetime with the stability period
    #[serde(default)] slack_us: u64,
    #[serde(default)] life_slack_us: u64,
    /// "none" | "uniform" | "" (library default)
    #[serde(default)] jitter: String,
    #[serde(default)] connect_timeout_ms: Option<u64>,
    /// extreme values the builders accept: "max" = Duration::MAX, "zero"
    #[serde(default)] connect_timeout_tok: String,
    #[serde(default)] ping_timeout_tok: String,
    #[serde(default)] ka: Option<u16>,
    #[serde(default)] policy: String,
    /// the automatic broker answers CONNECT / PUBLISH / SUBSCRIBE / ... on its own
    #[serde(default = "d_true")] auto_broker: bool,
}

#[derive(Clone, Debug, Serialize, Deserialize)]
#[serde(tag = "a")]
enum Step {
    Start {},
    Stop { #[serde(default)] disc: bool },
    Close {},
    /// what the next connection attempts yield: ok | refuse | hang
    ConnectPlan { #[serde(default = "d_ok")] mode: String },
    /// outcomes of the next attempts, one per attempt: refuse | hang | ok | up (accepted, CONNACK sent by the transport, stays up)
    /// | life:<real us> (accepted, CONNACK sent by the transport, ended by the peer after that much real time)
    /// | reject:<real us> (accepted; after that much real time a failing CONNACK) | eof:<real us> (accepted; ends before any CONNACK); then ConnectPlan applies
    ConnectPlanSeq { modes: Vec<String> },
    /// let virtual time pass (the runtime auto-advances its paused clock when every task is idle)
    Run { #[serde(default = "d_ms")] ms: u64 },
    Yield { #[serde(default = "d_one")] n: usize },
    /// yield until the client has written a complete packet of this type on the current connection (bounded)
    WaitWritten { #[serde(default = "d_any")] what: String },
    /// connack_ok | connack_sp | connack_fail | garbage | pingresp
    Send { what: String },
    PeerClose {},
    ReadError {},
    WriteStall { on: bool },
    WriteError {},
    WriteChunk { n: usize },
    /// the transport accepts n more bytes and then blocks until WriteStall {on: false}
    WriteBudget { n: usize },
    ReadChunk { n: usize },
    AutoBroker { on: bool },
    Publish { #[serde(default)] qos: u8, #[serde(default)] size: usize,
              /// ack timeout: "" none | "max" (Duration::MAX) | "zero" | milliseconds
              #[serde(default)] ack: String },
    /// drop: the handle to the operation's result is dropped at once (fire and forget): nothing may depend on it
    Subscribe { #[serde(default)] drop: bool },
    Unsubscribe {},
    /// a QoS 0 publish whose result handle is dropped at once
    Abandon {},
    /// the broker sends n QoS 0 publishes (tagged payloads of `size` bytes) to the client
    Inbound { n: usize, #[serde(default)] size: usize },
    /// let everything finish: generous virtual time, then collect results and the loop's state
    Settle { #[serde(default = "d_ms")] ms: u64 },
}

#[derive(Clone, Debug, Serialize, Deserialize)]
struct Script { #[serde(default)] cfg: ClientCfg, steps: Vec<Step> }

type OpFuture = Pin<Box<dyn Future<Output = Result<String, String>> + Send>>;

struct Run {
    tr: Trace,
    t0: tokio::time::Instant,
    conns: Arc<Mutex<Vec<Arc<Mutex<Shared>>>>>,
    plan: Arc<Mutex<String>>,
    plan_seq: Arc<Mutex<VecDeque<String>>>,
    events: Arc<Mutex<Vec<(u64, u64, u64, String)>>>,
    auto: bool,
    pending: Vec<(u64, OpFuture)>,
    next_op: u64,
    broker_pid_seen: Vec<(u8, u16)>,
    received: Arc<Mutex<Vec<(u64, bool)>>>,
    framing_error_logged: bool,
    next_in: u64,
    sent_in: u64,
}

impl Run {
    fn now_ms(&self) -> u64 { (tokio::time::Instant::now() - self.t0).as_millis() as u64 }

    fn emit(&mut self, ev: &str, mut fields: Vec<(&str, Value)>) {
        fields.insert(0, ("t", json!(self.now_ms())));
        self.tr.emit(ev, fields);
    }

    fn flush_client_events(&mut self) {
        let list: Vec<(u64, u64, u64, String)> = std::mem::take(&mut *self.events.lock().unwrap());
        for (t, tus, rus, kind) in list { self.tr.emit("ClientEv", vec![("t", json!(t)), ("kind", json!(kind)), ("tus", json!(verif_harness::trace::clamp31(tus))), ("rus", json!(verif_harness::trace::clamp31(rus)))]); }
    }

    fn current(&self) -> Option<Arc<Mutex<Shared>>> { self.conns.lock().unwrap().last().cloned() }

    /// decode what the client wrote since last time; log it; let the automatic broker answer
    fn observe(&mut self) {
        self.flush_client_events();
        let n_conns = self.conns.lock().unwrap().len();
        let Some(conn) = self.current() else { return; };
        let mut answers: Vec<Packet> = Vec::new();
        let mut logs: Vec<(String, u16, usize, u64, u8)> = Vec::new();
        {
            let mut s = conn.lock().unwrap();
            let framed = rc::frame(&s.written[s.parsed..]);
            let base = s.parsed;
            for (first, body, _start, end) in framed.frames {
                s.parsed = base + end;
                match rc::decode(first, &body, true) {
                    Ok(p) => {
                        let (tag, intact) = if p.ptype == rc::PUBLISH { let (t, ok) = verif_harness::trace::check_payload(p.bytes("payload").unwrap_or(&[])); (t, ok as u8) } else { (0, 1) };
                        logs.push((rc::type_name(p.ptype).to_string(), p.pid(), end, tag, intact));
                        if self.auto && !s.eof && !s.read_err {
                            match p.ptype {
                                rc::CONNECT => answers.push(Packet::new(rc::CONNACK).with("session_present", V::Flag(false)).with("reason_code", V::U(0))),
                                rc::PUBLISH => { match p.u("qos").unwrap_or(0) { 1 => answers.push(Packet::new(rc::PUBACK).with("packet_id", V::U(p.pid() as u64)).with("reason_code", V::U(0))), 2 => answers.push(Packet::new(rc::PUBREC).with("packet_id", V::U(p.pid() as u64)).with("reason_code", V::U(0))), _ => {} } }
                                rc::PUBREL => answers.push(Packet::new(rc::PUBCOMP).with("packet_id", V::U(p.pid() as u64)).with("reason_code", V::U(0))),
                                rc::SUBSCRIBE => answers.push(Packet::new(rc::SUBACK).with("packet_id", V::U(p.pid() as u64)).with("reason_codes", V::List(vec![V::U(0); p.list("subscriptions").len()]))),
                                rc::UNSUBSCRIBE => answers.push(Packet::new(rc::UNSUBACK).with("packet_id", V::U(p.pid() as u64)).with("reason_codes", V::List(vec![V::U(0); p.list("topic_filters").len()]))),
                                rc::PINGREQ => answers.push(Packet::new(rc::PINGRESP)),
                                _ => {}
                            }
                        }
                    }
                    Err(_) => logs.push(("UNDECODABLE".to_string(), 0, end, 0, 0)),
                }
            }
            for a in &answers { let bytes = rc::encode(a, true, None); s.inbox.extend(bytes.iter()); s.fed.extend(bytes.iter()); }
            if !answers.is_empty() { wake(&mut s); }
        }
        if rc::frame(&conn.lock().unwrap().written).error_at.is_some() && !self.framing_error_logged { self.framing_error_logged = true; logs.push(("UNDECODABLE".to_string(), 0, 0, 0, 0)); }
        for (ty, pid, _, tag, intact) in logs { self.emit("Wrote", vec![("conn", json!(n_conns)), ("type", json!(ty)), ("pid", json!(pid)), ("tag", json!(tag)), ("intact", json!(intact))]); }
        let list: Vec<(u64, bool)> = std::mem::take(&mut *self.received.lock().unwrap());
        for (tag, intact) in list { self.emit("Recv", vec![("tag", json!(tag)), ("intact", json!(intact as u8))]); }
    }

    async fn settle_tasks(&mut self, rounds: usize) {
        for _ in 0..rounds { tokio::task::yield_now().await; self.observe(); }
    }

    async fn poll_results(&mut self) {
        // poll every pending operation future once without blocking
        let mut still = Vec::new();
        let pending = std::mem::take(&mut self.pending);
        for (id, mut fut) in pending {
            let res = futures_poll_once(&mut fut).await;
            match res {
                Some(r) => { let (ok, what) = match r { Ok(s) => (1, s), Err(e) => (0, e) }; self.emit("OpResult", vec![("op", json!(id)), ("ok", json!(ok)), ("what", json!(what))]); }
                None => still.push((id, fut)),
            }
        }
        self.pending = still;
    }
}

async fn futures_poll_once<T>(fut: &mut Pin<Box<dyn Future<Output = T> + Send>>) -> Option<T> {
    std::future::poll_fn(|cx| match fut.as_mut().poll(cx) { Poll::Ready(v) => Poll::Ready(Some(v)), Poll::Pending => Poll::Ready(None) }).await
}

fn event_kind(e: &ClientEvent) -> Option<&'static str> {
    match e {
        ClientEvent::ConnectionAttempt(_) => Some("Attempt"),
        ClientEvent::ConnectionSuccess(_) => Some("Success"),
        ClientEvent::ConnectionFailure(_) => Some("Failure"),
        ClientEvent::Disconnection(_) => Some("Disconnection"),
        ClientEvent::Stopped(_) => Some("Stopped"),
        _ => None,
    }
}

async fn run_script(script: &Script, run_no: u64, tr: Trace) -> Trace {
    let cfg = &script.cfg;
    let mut cb = MqttClientOptions::builder();
    if let Some(x) = cfg.base_ms { cb.with_base_reconnect_period(Duration::from_millis(x)); }
    if let Some(x) = cfg.max_ms { cb.with_max_reconnect_period(Duration::from_millis(x)); }
    if let Some(x) = cfg.stable_ms { cb.with_reconnect_stability_reset_period(Duration::from_millis(x)); }
    let tok = |t: &str| -> Option<Duration> { match t { "durmax" => Some(Duration::MAX), "halfplus" => Some(Duration::from_secs(u64::MAX / 2 + 1)), _ => None } };
    if let Some(x) = cfg.base_us { cb.with_base_reconnect_period(Duration::from_micros(x)); }
    if let Some(x) = cfg.max_us { cb.with_max_reconnect_period(Duration::from_micros(x)); }
    if let Some(x) = cfg.stable_us { cb.with_reconnect_stability_reset_period(Duration::from_micros(x)); }
    if let Some(d) = tok(&cfg.base_tok) { cb.with_base_reconnect_period(d); }
    if let Some(d) = tok(&cfg.max_tok) { cb.with_max_reconnect_period(d); }
    match cfg.jitter.as_str() { "none" => { cb.with_reconnect_period_jitter(ExponentialBackoffJitterType::None); } "uniform" => { cb.with_reconnect_period_jitter(ExponentialBackoffJitterType::Uniform); } _ => {} }
    if let Some(x) = cfg.connect_timeout_ms { cb.with_connect_timeout(Duration::from_millis(x)); }
    match cfg.connect_timeout_tok.as_str() { "max" => { cb.with_connect_timeout(Duration::MAX); } "zero" => { cb.with_connect_timeout(Duration::ZERO); } _ => {} }
    match cfg.ping_timeout_tok.as_str() { "max" => { cb.with_ping_timeout(Duration::MAX); } "zero" => { cb.with_ping_timeout(Duration::ZERO); } _ => {} }
    match cfg.policy.as_str() { "All" => { cb.with_offline_queue_policy(OfflineQueuePolicy::PreserveAll); } "None" => { cb.with_offline_queue_policy(OfflineQueuePolicy::PreserveNothing); } _ => {} }
    let mut co = ConnectOptions::builder();
    co.with_client_id("verif");
    co.with_keep_alive_interval_seconds(cfg.ka);

    let conns: Arc<Mutex<Vec<Arc<Mutex<Shared>>>>> = Arc::new(Mutex::new(Vec::new()));
    let plan = Arc::new(Mutex::new("ok".to_string()));
    let events: Arc<Mutex<Vec<(u64, u64, u64, String)>>> = Arc::new(Mutex::new(Vec::new()));
    let plan_seq: Arc<Mutex<VecDeque<String>>> = Arc::new(Mutex::new(VecDeque::new()));
    let r0 = std::time::Instant::now();
    let attempts: Arc<Mutex<Vec<(u64, String)>>> = Arc::new(Mutex::new(Vec::new()));
    let t0 = tokio::time::Instant::now();

    let (fconns, fplan, fattempts, fseq) = (conns.clone(), plan.clone(), attempts.clone(), plan_seq.clone());
    let factory = Box::new(move || -> Pin<Box<dyn Future<Output = gneiss_mqtt::error::GneissResult<ScriptedStream>> + Send>> {
        let mode = fseq.lock().unwrap().pop_front().unwrap_or_else(|| fplan.lock().unwrap().clone());
        let t = (tokio::time::Instant::now() - t0).as_millis() as u64;
        fattempts.lock().unwrap().push((t, mode.clone()));
        let conns = fconns.clone();
        Box::pin(async move {
            match mode.as_str() {
                "refuse" => Err(gneiss_mqtt::error::GneissError::from(std::io::Error::from(std::io::ErrorKind::ConnectionRefused))),
                "hang" => { tokio::time::sleep(Duration::from_secs(1_000_000)).await; Err(gneiss_mqtt::error::GneissError::from(std::io::Error::from(std::io::ErrorKind::TimedOut))) }
                _ => {
                    let shared = Arc::new(Mutex::new(Shared::default()));
                    {
                        let mut s = shared.lock().unwrap();
                        s.write_stall = mode == "ok_stalled";
                        if mode == "up" { s.auto_connack = true; }
                        if let Some(us) = mode.strip_prefix("life:") { s.auto_connack = true; s.close_after_real_us = Some(us.parse().unwrap_or(0)); }
                        if let Some(us) = mode.strip_prefix("reject:") { s.fail_after_real_us = Some(us.parse().unwrap_or(0)); s.fail_with_connack = true; }
                        if let Some(us) = mode.strip_prefix("eof:") { s.fail_after_real_us = Some(us.parse().unwrap_or(0)); s.fail_with_connack = false; }
                    }
                    conns.lock().unwrap().push(shared.clone());
                    Ok(ScriptedStream(shared))
                }
            }
        })
    });

    let client = new_tokio_client(cb.build(), co.build(), TokioOptions::builder(tokio::runtime::Handle::current()).build(), factory);
    let ev_sink = events.clone();
    let received: Arc<Mutex<Vec<(u64, bool)>>> = Arc::new(Mutex::new(Vec::new()));
    let rx_sink = received.clone();
    let listener: Arc<ClientEventListenerCallback> = Arc::new(move |e: Arc<ClientEvent>| {
        if let ClientEvent::PublishReceived(p) = &*e { let payload = p.publish.payload().map(|x| x.to_vec()).unwrap_or_default(); let (t, ok) = verif_harness::trace::check_payload(&payload); rx_sink.lock().unwrap().push((t, ok)); }
        if let Some(kind) = event_kind(&e) { let d = tokio::time::Instant::now() - t0; ev_sink.lock().unwrap().push((d.as_millis() as u64, d.as_micros() as u64, r0.elapsed().as_micros() as u64, kind.to_string())); }
    });

    let mut r = Run { tr, t0, conns, plan, plan_seq, events, auto: cfg.auto_broker, pending: Vec::new(), next_op: 1, broker_pid_seen: Vec::new(), received, framing_error_logged: false, next_in: 1000, sent_in: 0 };
    r.tr.begin_run(run_no);
    r.tr.emit("Cfg", vec![("src", json!(cfg.src)), ("driver", json!("tokio")), ("baseMs", json!(cfg.base_ms.map(|x| x as i64).unwrap_or(-1))), ("maxMs", json!(cfg.max_ms.map(|x| x as i64).unwrap_or(-1))),
        ("stableMs", json!(cfg.stable_ms.map(|x| x as i64).unwrap_or(-1))), ("jitter", json!(cfg.jitter)), ("faithful", json!(0)), ("policy", json!(cfg.policy)),
        ("baseUs", json!(if !cfg.base_tok.is_empty() { 0x7FFF_FFFF } else { cfg.base_us.map(|x| verif_harness::trace::clamp31(x)).unwrap_or(-1) })),
        ("maxUs", json!(if !cfg.max_tok.is_empty() { 0x7FFF_FFFF } else { cfg.max_us.map(|x| verif_harness::trace::clamp31(x)).unwrap_or(-1) })),
        ("stableUs", json!(cfg.stable_us.map(|x| verif_harness::trace::clamp31(x)).unwrap_or(-1))), ("slackUs", json!(cfg.slack_us)), ("lifeSlackUs", json!(cfg.life_slack_us))]);
    let mut first_start = true;
    let mut closed = false;

    for step in &script.steps {
        match step {
            Step::Start {} => {
                let res = client.start(if first_start { Some(listener.clone()) } else { None });
                first_start = false;
                r.emit("User", vec![("req", json!("UserStart")), ("accepted", json!(res.is_ok() as u8))]);
            }
            Step::Stop { disc } => {
                let opts = if *disc { Some(StopOptions::builder().with_disconnect_packet(DisconnectPacket::builder().build()).build()) } else { None };
                let res = client.stop(opts);
                r.emit("User", vec![("req", json!(if *disc { "UserStopDisc" } else { "UserStop" })), ("accepted", json!(res.is_ok() as u8))]);
            }
            Step::Close {} => { let res = client.close(); closed = true; r.emit("User", vec![("req", json!("UserClose")), ("accepted", json!(res.is_ok() as u8))]); }
            Step::ConnectPlan { mode } => { *r.plan.lock().unwrap() = mode.clone(); }
            Step::ConnectPlanSeq { modes } => { let mut q = r.plan_seq.lock().unwrap(); q.clear(); q.extend(modes.iter().cloned()); }
            Step::Run { ms } => {
                // advance in small slices so the automatic broker keeps up
                let mut left = *ms;
                r.settle_tasks(3).await;
                while left > 0 { let d = left.min(50); tokio::time::sleep(Duration::from_millis(d)).await; left -= d; r.settle_tasks(2).await; }
            }
            Step::Yield { n } => { r.settle_tasks(*n).await; }
            Step::WaitWritten { what } => {
                let mut found = false;
                for _ in 0..400 {
                    r.settle_tasks(1).await;
                    if let Some(c) = r.current() {
                        let s = c.lock().unwrap();
                        let framed = rc::frame(&s.written);
                        for (first, _, _, _) in framed.frames { if what == "any" || rc::type_name(first >> 4) == what { found = true; } }
                    }
                    if found { break; }
                    tokio::time::sleep(Duration::from_millis(1)).await;
                }
                r.emit("Waited", vec![("what", json!(what)), ("found", json!(found as u8))]);
            }
            Step::Send { what } => {
                if let Some(c) = r.current() {
                    let bytes: Vec<u8> = match what.as_str() {
                        "connack_ok" => rc::encode(&Packet::new(rc::CONNACK).with("session_present", V::Flag(false)).with("reason_code", V::U(0)), true, None),
                        "connack_sp" => rc::encode(&Packet::new(rc::CONNACK).with("session_present", V::Flag(true)).with("reason_code", V::U(0)), true, None),
                        "connack_fail" => rc::encode(&Packet::new(rc::CONNACK).with("session_present", V::Flag(false)).with("reason_code", V::U(0x87)), true, None),
                        "pingresp" => rc::encode(&Packet::new(rc::PINGRESP), true, None),
                        _ => vec![0xff, 0xff, 0xff, 0xff, 0xff, 0x01],
                    };
                    { let mut s = c.lock().unwrap(); s.inbox.extend(bytes.iter()); s.fed.extend(bytes.iter()); wake(&mut s); }
                    r.emit("Sent", vec![("what", json!(what))]);
                }
            }
            Step::PeerClose {} => { if let Some(c) = r.current() { let mut s = c.lock().unwrap(); s.eof = true; wake(&mut s); } r.emit("Net", vec![("what", json!("PeerClose"))]); }
            Step::ReadError {} => { if let Some(c) = r.current() { let mut s = c.lock().unwrap(); s.read_err = true; wake(&mut s); } r.emit("Net", vec![("what", json!("ReadError"))]); }
            Step::WriteStall { on } => { if let Some(c) = r.current() { let mut s = c.lock().unwrap(); s.write_stall = *on; if !*on { s.write_budget = None; } wake(&mut s); } r.emit("Net", vec![("what", json!(if *on { "WriteStall" } else { "WriteResume" }))]); }
            Step::WriteError {} => { if let Some(c) = r.current() { let mut s = c.lock().unwrap(); s.write_err = true; wake(&mut s); } r.emit("Net", vec![("what", json!("WriteError"))]); }
            Step::WriteChunk { n } => { if let Some(c) = r.current() { c.lock().unwrap().write_chunk = *n; } }
            Step::WriteBudget { n } => { if let Some(c) = r.current() { c.lock().unwrap().write_budget = Some(*n); } }
            Step::ReadChunk { n } => { if let Some(c) = r.current() { c.lock().unwrap().read_chunk = *n; } }
            Step::AutoBroker { on } => { r.auto = *on; }
            Step::Publish { qos, size, ack } => {
                let id = r.next_op; r.next_op += 1;
                let payload = verif_harness::trace::payload_for(id, *size);
                let q = match qos { 0 => QualityOfService::AtMostOnce, 1 => QualityOfService::AtLeastOnce, _ => QualityOfService::ExactlyOnce };
                let opts = match ack.as_str() { "" => None, "max" => Some(PublishOptions::builder().with_ack_timeout(Duration::MAX).build()), "zero" => Some(PublishOptions::builder().with_ack_timeout(Duration::ZERO).build()),
                    ms => ms.parse::<u64>().ok().map(|x| PublishOptions::builder().with_ack_timeout(Duration::from_millis(x)).build()) };
                let fut = client.publish(PublishPacket::builder("t/verif".to_string(), q).with_payload(payload).build(), opts);
                r.emit("OpSubmit", vec![("op", json!(id)), ("kind", json!("pub")), ("qos", json!(qos)), ("afterClose", json!(closed as u8))]);
                r.pending.push((id, Box::pin(async move { match fut.await { Ok(_) => Ok("ok".to_string()), Err(e) => Err(verif_harness::sim::err_kind(&e).to_string()) } })));
            }
            Step::Abandon {} => {
                let id = r.next_op; r.next_op += 1;
                let fut = client.publish(PublishPacket::builder("t/verif".to_string(), QualityOfService::AtMostOnce).with_payload(verif_harness::trace::payload_for(id, 8)).build(), None);
                std::mem::drop(fut);
                r.emit("OpAbandoned", vec![("op", json!(id)), ("kind", json!("pub"))]);
            }
            Step::Subscribe { drop } => {
                let id = r.next_op; r.next_op += 1;
                let fut = client.subscribe(SubscribePacket::builder().with_subscription_simple(format!("s/{}/a", id), QualityOfService::AtLeastOnce).build(), None);
                if *drop { std::mem::drop(fut); r.emit("OpAbandoned", vec![("op", json!(id)), ("kind", json!("sub"))]); r.observe(); r.poll_results().await; continue; }
                r.emit("OpSubmit", vec![("op", json!(id)), ("kind", json!("sub")), ("qos", json!(0)), ("afterClose", json!(closed as u8))]);
                r.pending.push((id, Box::pin(async move { match fut.await { Ok(_) => Ok("ok".to_string()), Err(e) => Err(verif_harness::sim::err_kind(&e).to_string()) } })));
            }
            Step::Unsubscribe {} => {
                let id = r.next_op; r.next_op += 1;
                let fut = client.unsubscribe(UnsubscribePacket::builder().with_topic_filter(format!("u/{}/a", id)).build(), None);
                r.emit("OpSubmit", vec![("op", json!(id)), ("kind", json!("unsub")), ("qos", json!(0)), ("afterClose", json!(closed as u8))]);
                r.pending.push((id, Box::pin(async move { match fut.await { Ok(_) => Ok("ok".to_string()), Err(e) => Err(verif_harness::sim::err_kind(&e).to_string()) } })));
            }
            Step::Inbound { n, size } => {
                if let Some(c) = r.current() {
                    for _ in 0..*n {
                        let tag = r.next_in; r.next_in += 1; r.sent_in += 1;
                        let p = Packet::new(rc::PUBLISH).with("topic", V::S("in/verif".into())).with("qos", V::U(0)).with("packet_id", V::U(0)).with("duplicate", V::Flag(false)).with("retain", V::Flag(false))
                            .with("payload", V::Bytes(verif_harness::trace::payload_for(tag, *size)));
                        let bytes = rc::encode(&p, true, None);
                        { let mut s = c.lock().unwrap(); s.inbox.extend(bytes.iter()); s.fed.extend(bytes.iter()); wake(&mut s); }
                        r.emit("Sent", vec![("conn", json!(1)), ("tag", json!(tag)), ("size", json!(size))]);
                    }
                }
            }
            Step::Settle { ms } => {
                let mut left = (*ms).max(100);
                let chunk = (left / 300).max(100);
                while left > 0 { let d = left.min(chunk); tokio::time::sleep(Duration::from_millis(d)).await; left -= d; r.settle_tasks(3).await; r.poll_results().await; }
            }
        }
        r.observe();
        r.poll_results().await;
    }

    // end of run: results, attempts, byte-stream comparison, liveness of the loop
    r.settle_tasks(5).await;
    r.poll_results().await;
    let unresolved: Vec<u64> = r.pending.iter().map(|(id, _)| *id).collect();
    for id in &unresolved { r.emit("OpUnresolved", vec![("op", json!(id))]); }
    let alive = client.start(None).is_ok();
    let att: Vec<(u64, String)> = attempts.lock().unwrap().clone();
    for (t, mode) in att { r.tr.emit("ConnAttempt", vec![("t", json!(t)), ("mode", json!(mode))]); }
    r.flush_client_events();
    // judge = 0 when the script left the transport unresponsive (a stalled write that was never released, a hanging connect)
    let stalled = r.current().map(|c| { let s = c.lock().unwrap(); s.write_stall && !s.dropped && !s.shutdown_by_client }).unwrap_or(false) || *r.plan.lock().unwrap() == "hang";
    r.emit("End", vec![("loopAlive", json!(alive as u8)), ("closed", json!(closed as u8)), ("unresolved", json!(unresolved.len())), ("judge", json!(!stalled as u8)), ("expectAllRecv", json!((!closed && r.sent_in > 0) as u8)), ("lossless", json!(1))]);
    let _ = &r.broker_pid_seen;
    r.tr
}

fn arg(args: &[String], name: &str) -> Option<String> { args.iter().position(|a| a == name).and_then(|i| args.get(i + 1).cloned()) }

fn main() {
    if std::env::var("VERIF_SHOW_PANICS").is_err() { std::panic::set_hook(Box::new(|_| {})); }
    let args: Vec<String> = std::env::args().collect();
    let out = arg(&args, "--out").unwrap_or_else(|| "client.ndjson".into());
    let path = arg(&args, "--scripts-in").expect("--scripts-in <file>");
    let f = std::fs::File::open(&path).expect("scripts-in");
    let mut scripts: Vec<Script> = Vec::new();
    for line in std::io::BufReader::new(f).lines() {
        let line = line.unwrap();
        if line.trim().is_empty() { continue; }
        match serde_json::from_str::<Script>(&line) { Ok(s) => scripts.push(s), Err(e) => { eprintln!("bad script line: {} ({})", e, &line[..line.len().min(200)]); std::process::exit(2); } }
    }
    let mut all = Trace::new();
    let mut panics = 0u64;
    for (i, s) in scripts.iter().enumerate() {
        let run_no = (i + 1) as u64;
        // each run gets its own current-thread runtime with a paused clock
        let script = s.clone();
        let result = std::panic::catch_unwind(move || {
            let rt = tokio::runtime::Builder::new_current_thread().enable_all().start_paused(true).build().expect("runtime");
            let tr = rt.block_on(async move { run_script(&script, run_no, Trace::new()).await });
            rt.shutdown_timeout(Duration::from_millis(10));
            tr
        });
        match result {
            Ok(tr) => { all.lines.extend(tr.lines); }
            Err(_) => { panics += 1; let mut t = Trace::new(); t.begin_run(run_no); t.emit("Cfg", vec![("src", json!(s.cfg.src)), ("driver", json!("tokio"))]); t.emit("Panic", vec![("where", json!("harness-or-client"))]); all.lines.extend(t.lines); }
        }
    }
    all.write_to(&out).expect("write trace");
    let mut so = std::io::stdout();
    writeln!(so, "{}", json!({"runs": scripts.len(), "events": all.lines.len(), "panics": panics})).unwrap();
}
