------------------------------- MODULE MonC15 -------------------------------
(* C15 - the offline-queue policy decides per operation kind what survives being offline.
   QoS 1/2 publishes already in flight are retained across the disconnection and meet the policy
   only when the server reports no session. *)
EXTENDS MonBase

Init0 == [run |-> 0, skip |-> FALSE, errs |-> <<>>,
          policy |-> "All",
          ops |-> EmptyMap,      \* op -> [kind, qos, res, inflight, offlineAtSubmit]
          connected |-> FALSE,   \* a successful CONNACK has been processed on the current connection
          check |-> "none",      \* deferred check to run when the current step's followers have passed
          checkOp |-> 0]

Keeps(m, o) == PolicyKeeps(m.policy, o.kind, o.qos)
LackOfConnection(err) == err \in {"OfflineQueuePolicyFailed", "ConnectionClosed"}

Deferred(m, e) ==
    CASE m.check = "submit" ->
             IF Has(m.ops, m.checkOp) /\ ~m.ops[m.checkOp].res /\ ~Keeps(m, m.ops[m.checkOp]) THEN Breach(m, e, "rejected-kept") ELSE [m EXCEPT !.check = "none"]
      [] m.check = "close" ->
             IF \E k \in DOMAIN m.ops : ~m.ops[k].res /\ ~Keeps(m, m.ops[k]) /\ ~m.ops[k].inflight THEN Breach(m, e, "rejected-kept") ELSE [m EXCEPT !.check = "none"]
      [] m.check = "nosession" ->
             IF \E k \in DOMAIN m.ops : ~m.ops[k].res /\ ~Keeps(m, m.ops[k]) THEN Breach(m, e, "rejected-kept") ELSE [m EXCEPT !.check = "none"]
      [] OTHER -> m

OnComplete(m, e) ==
    IF ~Has(m.ops, e.op) THEN m
    ELSE LET o == m.ops[e.op]
             done == [m EXCEPT !.ops[e.op].res = TRUE]
         IN IF e.ok = 1 \/ ~LackOfConnection(e.err) THEN done
            ELSE IF Keeps(m, o) THEN Breach(m, e, "preserved-failed")
            ELSE IF e.err = "OfflineQueuePolicyFailed" /\ e.during = "close" /\ o.inflight THEN Breach(m, e, "inflight-dropped")
            ELSE IF e.err = "OfflineQueuePolicyFailed" /\ e.during = "submit" /\ ~o.offl THEN Breach(m, e, "offline-error-while-connected")
            ELSE IF e.err = "OfflineQueuePolicyFailed" /\ m.connected /\ e.during \notin {"close", "rx", "submit"} THEN Breach(m, e, "offline-error-while-connected")
            ELSE done

Apply(m, e) ==
    IF e.ev = "Cfg" THEN [Init0 EXCEPT !.run = e.run, !.errs = m.errs, !.policy = e.policy]
    ELSE IF m.skip THEN m
    ELSE IF e.ev = "Complete" THEN OnComplete(m, e)
    ELSE IF e.ev = "Tx" THEN
             (IF e.partial = 0 /\ e.type = "PUBLISH" /\ e.qos > 0 /\ e.op # 0 /\ Has(m.ops, e.op) THEN [m EXCEPT !.ops[e.op].inflight = TRUE] ELSE m)
    ELSE IF Follower(e) THEN m
    ELSE LET d == Deferred(m, e) IN
         IF d.skip THEN d
         ELSE CASE e.ev = "Submit" ->
                       [d EXCEPT !.ops = Put(@, e.op, [kind |-> e.kind, qos |-> e.qos, res |-> FALSE, inflight |-> FALSE, offl |-> (e.state # "Connected")]),
                                 !.check = IF e.state # "Connected" THEN "submit" ELSE "none", !.checkOp = e.op]
                [] e.ev = "Close" -> [d EXCEPT !.connected = FALSE, !.check = "close"]
                [] e.ev = "Open" -> [d EXCEPT !.connected = FALSE]
                [] e.ev = "Rx" /\ e.type = "CONNACK" /\ e.result = "ok" ->
                       IF e.sp = 0 THEN [d EXCEPT !.connected = TRUE, !.check = "nosession", !.ops = MapAll(@, LAMBDA o : [o EXCEPT !.inflight = FALSE])]
                       ELSE [d EXCEPT !.connected = TRUE]
                [] e.ev = "Reset" -> [d EXCEPT !.connected = FALSE, !.check = "none"]
                [] OTHER -> d
=============================================================================
