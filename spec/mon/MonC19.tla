------------------------------- MODULE MonC19 -------------------------------
(* C19 - reconnect back-off: after a failed attempt or a lost connection the wait before the k-th
   consecutive reconnect attempt is min(base * 2^k, max) with jitter disabled and lies in
   [0, min(base * 2^k, max)] with uniform jitter; it never exceeds the effective maximum (a maximum
   below one second is raised to one second; base > max is swapped); the sequence restarts from the
   base period only after a connection stayed established longer than the stability period; and
   computing the wait never fails.

   Events (time in microseconds, field tus):
     Cfg{baseUs, maxUs, stableUs, jitter, slackUs, lifeSlackUs}
                             configuration as the user supplied it (not normalised); slackUs = timer granularity of
                             the driver that was observed; lifeSlackUs = tolerance when a measured connection
                             lifetime is compared with the stability period (both 0 in model checking)
     ClientEv{kind, tus, rus}   Attempt | Success | Failure | Disconnection | Stopped; tus = time on the clock the
                             driver sleeps on, rus = time on the clock the client measures lifetimes with (the
                             tokio client sleeps on tokio's clock, virtual in the harness, and measures lifetimes
                             with std::time::Instant; in the model both are the same clock)
     End{loopAlive, closed}  end of the run
     Panic

   The wait is read from the event stream: it starts at the Failure / Disconnection event and ends at
   the next Attempt event.  Readings chosen where the text leaves room: k counts from 0 (the first wait
   is the base period); after a connection that outlived the stability period both the restarted and
   the continued sequence are accepted ("only after" is an only-if); after a user stop/start the
   position in the sequence is not constrained.  `ks` is the set of positions the sequence may be at. *)
EXTENDS MonBase

OneSecond == 1000000

EffMax(c) == LET hi == Max(c.baseUs, c.maxUs) IN Max(hi, OneSecond)
EffBase(c) == Min(c.baseUs, c.maxUs)

\* min(base * 2^j, max) without overflowing 32-bit integers
RECURSIVE Cap(_, _)
Cap(c, j) == IF j = 0 THEN Min(EffBase(c), EffMax(c))
             ELSE LET p == Cap(c, j - 1) IN IF p >= EffMax(c) - p THEN EffMax(c) ELSE 2 * p

\* first position at which the cap has reached the maximum (or stays 0 for ever)
RECURSIVE SatFrom(_, _)
SatFrom(c, j) == IF j >= 34 \/ Cap(c, j) = EffMax(c) \/ Cap(c, j) = 0 THEN j ELSE SatFrom(c, j + 1)
SatK(c) == SatFrom(c, 0)
Bump(c, j) == IF j >= SatK(c) THEN SatK(c) ELSE j + 1

Init0 == [run |-> 0, skip |-> FALSE, errs |-> <<>>,
          cfg |-> [baseUs |-> 0, maxUs |-> 0, stableUs |-> 0, jitter |-> "none", slackUs |-> 0, lifeSlackUs |-> 0], on |-> FALSE,
          ks |-> {0},            \* possible positions in the doubling sequence
          endT |-> -1,           \* time of the Failure / Disconnection the current wait started at (-1: none)
          upT |-> -1,            \* time of the Success event of the current connection
          mayReset |-> FALSE]    \* the connection that just ended outlived the stability period

OnAttempt(m, e) ==
    IF m.endT < 0 THEN m
    ELSE LET wait == e.tus - m.endT
             c == m.cfg
             allowed == m.ks \cup (IF m.mayReset THEN {0} ELSE {})
             fits(j) == IF c.jitter = "none" THEN wait >= Cap(c, j) /\ wait <= Cap(c, j) + c.slackUs
                        ELSE wait >= 0 /\ wait <= Cap(c, j) + c.slackUs
             ok == {j \in allowed : fits(j)}
         IN IF ok = {} THEN Breach(m, e, IF c.jitter = "none" THEN "wait-value" ELSE "wait-range")
            ELSE [m EXCEPT !.ks = {Bump(c, j) : j \in ok}, !.endT = -1, !.mayReset = FALSE]

OnClientEv(m, e) ==
    CASE e.kind = "Attempt" -> OnAttempt(m, e)
      [] e.kind = "Success" -> [m EXCEPT !.upT = e.rus]
      [] e.kind = "Failure" -> [m EXCEPT !.endT = e.tus, !.upT = -1]
      [] e.kind = "Disconnection" ->
             [m EXCEPT !.endT = e.tus, !.upT = -1,
                       !.mayReset = m.upT >= 0 /\ (e.rus - m.upT) + m.cfg.lifeSlackUs > m.cfg.stableUs]
      [] e.kind = "Stopped" -> [m EXCEPT !.endT = -1, !.upT = -1, !.mayReset = FALSE, !.ks = 0..SatK(m.cfg)]
      [] OTHER -> m

Apply(m, e) ==
    IF e.ev = "Cfg" THEN
        IF "baseUs" \in DOMAIN e /\ e.baseUs >= 0
        THEN [Init0 EXCEPT !.run = e.run, !.errs = m.errs, !.on = TRUE,
                           !.cfg = [baseUs |-> e.baseUs, maxUs |-> e.maxUs, stableUs |-> e.stableUs, jitter |-> e.jitter, slackUs |-> e.slackUs, lifeSlackUs |-> e.lifeSlackUs]]
        ELSE [Init0 EXCEPT !.run = e.run, !.errs = m.errs]
    ELSE IF m.skip \/ ~m.on THEN m
    ELSE CASE e.ev = "ClientEv" -> OnClientEv(m, e)
           [] e.ev = "End" -> IF e.loopAlive = 0 /\ e.closed = 0 THEN Breach(m, e, "panic") ELSE m
           [] e.ev = "Panic" -> Breach(m, e, "panic")
           [] OTHER -> m
=============================================================================
