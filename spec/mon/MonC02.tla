------------------------------- MODULE MonC02 -------------------------------
(* C02, engine-run half: every packet the engine emits is decodable by the independent reference
   decoder and carries what the application supplied.  (Layouts, arithmetic and fragmentation
   independence are decided by Codec.tla / EncoderSteps.tla and the codec conformance check.) *)
EXTENDS MonBase

Init0 == [run |-> 0, skip |-> FALSE, errs |-> <<>>,
          ops |-> EmptyMap]      \* op -> [kind, qos, retain, entries, hash]

Apply(m, e) ==
    IF e.ev = "Cfg" THEN [Init0 EXCEPT !.run = e.run, !.errs = m.errs]
    ELSE IF m.skip THEN m
    ELSE CASE e.ev = "Submit" -> [m EXCEPT !.ops = Put(@, e.op, [kind |-> e.kind, qos |-> e.qos, retain |-> e.retain, entries |-> e.entries, hash |-> e.hash])]
           [] e.ev = "Tx" /\ e.partial = 0 /\ e.type = "UNDECODABLE" -> Breach(m, e, "not-decodable")
           [] e.ev = "Tx" /\ e.partial = 0 /\ e.op # 0 /\ Has(m.ops, e.op) /\ e.type \in {"PUBLISH", "SUBSCRIBE", "UNSUBSCRIBE"} ->
                  LET o == m.ops[e.op]
                      kindOk == (e.type = "PUBLISH" /\ o.kind = "pub") \/ (e.type = "SUBSCRIBE" /\ o.kind = "sub") \/ (e.type = "UNSUBSCRIBE" /\ o.kind = "unsub")
                  IN IF ~kindOk THEN Breach(m, e, "content-mismatch")
                     ELSE IF e.type = "PUBLISH" /\ (e.qos # o.qos \/ e.retain # o.retain) THEN Breach(m, e, "content-mismatch")
                     ELSE IF e.type # "PUBLISH" /\ e.n # o.entries THEN Breach(m, e, "content-mismatch")
                     ELSE IF o.hash # 0 /\ e.hash # o.hash THEN Breach(m, e, "content-mismatch")
                     ELSE m
           [] OTHER -> m
=============================================================================
