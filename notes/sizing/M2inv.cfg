SPECIFICATION Spec
CONSTANTS MaxOps = 1  MaxConns = 3  PidMax = 3  Budgets = {0, 1, 4}
INVARIANT C04NoRepeat
INVARIANT C04DupFlag
CHECK_DEADLOCK FALSE
