----------------------------- MODULE TraceCheck -----------------------------
(* Code -> spec: folds the selected property monitors over an ndjson trace recorded from the real
   implementation (path in the environment variable TRACE).  One TLC state per event; the verdict
   (all breaches, with run, sequence number and rule) is printed as JSON from the final state,
   and the POSTCONDITION asserts that the whole file was consumed. *)
EXTENDS Naturals, Sequences, TLC, TLCExt, Json, IOUtils

CONSTANT Which          \* set of monitor names to fold, e.g. {"C01", "C06"}

Rec == ndJsonDeserialize(IOEnv.TRACE)

C01 == INSTANCE MonC01
C04 == INSTANCE MonC04
C05 == INSTANCE MonC05
C06 == INSTANCE MonC06
C07 == INSTANCE MonC07
C08 == INSTANCE MonC08
C09 == INSTANCE MonC09
C10 == INSTANCE MonC10
C11 == INSTANCE MonC11
C14 == INSTANCE MonC14
C15 == INSTANCE MonC15
C16 == INSTANCE MonC16
C17 == INSTANCE MonC17
C18 == INSTANCE MonC18
C02 == INSTANCE MonC02

VARIABLES l, m

Names == {"C01", "C02", "C04", "C05", "C06", "C07", "C08", "C09", "C10", "C11", "C14", "C15", "C16", "C17", "C18"}

Init0(n) == CASE n = "C01" -> C01!Init0 [] n = "C02" -> C02!Init0 [] n = "C04" -> C04!Init0 [] n = "C05" -> C05!Init0
              [] n = "C06" -> C06!Init0 [] n = "C07" -> C07!Init0 [] n = "C08" -> C08!Init0 [] n = "C09" -> C09!Init0
              [] n = "C10" -> C10!Init0 [] n = "C11" -> C11!Init0 [] n = "C14" -> C14!Init0 [] n = "C15" -> C15!Init0
              [] n = "C16" -> C16!Init0 [] n = "C17" -> C17!Init0 [] n = "C18" -> C18!Init0

Step(n, s, e) == CASE n = "C01" -> C01!Apply(s, e) [] n = "C02" -> C02!Apply(s, e) [] n = "C04" -> C04!Apply(s, e) [] n = "C05" -> C05!Apply(s, e)
                   [] n = "C06" -> C06!Apply(s, e) [] n = "C07" -> C07!Apply(s, e) [] n = "C08" -> C08!Apply(s, e) [] n = "C09" -> C09!Apply(s, e)
                   [] n = "C10" -> C10!Apply(s, e) [] n = "C11" -> C11!Apply(s, e) [] n = "C14" -> C14!Apply(s, e) [] n = "C15" -> C15!Apply(s, e)
                   [] n = "C16" -> C16!Apply(s, e) [] n = "C17" -> C17!Apply(s, e) [] n = "C18" -> C18!Apply(s, e)

Init == l = 1 /\ m = [n \in Which |-> Init0(n)]

Next == /\ l <= Len(Rec)
        /\ l' = l + 1
        /\ m' = [n \in Which |-> Step(n, m[n], Rec[l])]

Spec == Init /\ [][Next]_<<l, m>>

Verdict ==
    l = Len(Rec) + 1 =>
        PrintT(<<"VERDICT", ToJson([events |-> Len(Rec), errs |-> [n \in Which |-> m[n].errs]])>>)

Consumed == TLCGet("stats").diameter = Len(Rec) + 1
=============================================================================
