#!/bin/bash
# usage: tc.sh trace.ndjson "C01","C04" -> prints summary of breaches per rule
TRACE_FILE=$1; WHICH=$2; W=${3:-/tmp/w/tcwork}
mkdir -p $W; sed "s/WHICH/$WHICH/" /verif/spec/mon/TraceCheck.cfg.tmpl > $W/TC.cfg
cd /verif/spec/mon && TRACE=$TRACE_FILE JAVA_TOOL_OPTIONS="-Xss1g" timeout 1800 tlc -workers 1 -noGenerateSpecTE -metadir $W/meta -cleanup -config $W/TC.cfg TraceCheck.tla > $W/out.txt 2>&1
python3 - $W/out.txt <<'PY'
import json,re,collections,sys
t=open(sys.argv[1]).read()
m=re.search(r'<<"VERDICT", "(.*)">>',t)
if not m: print(t[-3000:]); raise SystemExit(2)
v=json.loads(m.group(1).encode().decode('unicode_escape'))
print('events',v['events'], 'consumed-ok' if 'No error has been found' in t else 'TLC-ERROR')
for k,errs in sorted(v['errs'].items()):
    c=collections.Counter(e['rule'] for e in errs)
    first={}
    for e in errs: first.setdefault(e['rule'],(e['run'],e['seq']))
    print(k,{r:(n,first[r]) for r,n in c.items()})
PY
