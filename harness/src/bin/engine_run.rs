//! Runs engine scenarios (S1 scripts from TLC, S2 random, S3 regression) against the real
//! protocol engine and writes one ndjson trace plus the scripts that produced it.

use std::io::{BufRead, Write};
use verif_harness::sim::{run_script, Script};
use verif_harness::trace::Trace;
use verif_harness::{gen, regress};

fn arg(args: &[String], name: &str) -> Option<String> { args.iter().position(|a| a == name).and_then(|i| args.get(i + 1).cloned()) }

fn main() {
    // panics of the code under test are data; keep their messages out of the way
    if std::env::var("VERIF_SHOW_PANICS").is_err() { std::panic::set_hook(Box::new(|_| {})); }
    let args: Vec<String> = std::env::args().collect();
    let seed: u64 = arg(&args, "--seed").and_then(|s| s.parse().ok()).unwrap_or(1);
    let out = arg(&args, "--out").unwrap_or_else(|| "trace.ndjson".into());
    let scripts_out = arg(&args, "--scripts-out");
    let n_scripted: u64 = arg(&args, "--scripted").and_then(|s| s.parse().ok()).unwrap_or(0);
    let n_adv: u64 = arg(&args, "--adversarial").and_then(|s| s.parse().ok()).unwrap_or(0);
    let n_faithful: u64 = arg(&args, "--faithful").and_then(|s| s.parse().ok()).unwrap_or(0);
    let n_cycles: u64 = arg(&args, "--cycles").and_then(|s| s.parse().ok()).unwrap_or(0);
    let n_limits: u64 = arg(&args, "--limits").and_then(|s| s.parse().ok()).unwrap_or(0);
    let n_interrupted: u64 = arg(&args, "--interrupted").and_then(|s| s.parse().ok()).unwrap_or(0);
    let n_wrapnear: u64 = arg(&args, "--wrapnear").and_then(|s| s.parse().ok()).unwrap_or(0);
    let n_races: u64 = arg(&args, "--races").and_then(|s| s.parse().ok()).unwrap_or(0);
    let n_wrap: u64 = arg(&args, "--wrap").and_then(|s| s.parse().ok()).unwrap_or(0);
    let len: usize = arg(&args, "--len").and_then(|s| s.parse().ok()).unwrap_or(60);
    if args.iter().any(|a| a == "--state") { verif_harness::sim::STATE_EVENTS.store(true, std::sync::atomic::Ordering::Relaxed); }
    let mut scripts: Vec<Script> = Vec::new();
    if args.iter().any(|a| a == "--regress") { for (_, s) in regress::scripts() { scripts.push(s); } }
    if let Some(path) = arg(&args, "--scripts-in") {
        let f = std::fs::File::open(&path).expect("scripts-in");
        for line in std::io::BufReader::new(f).lines() {
            let line = line.unwrap();
            if line.trim().is_empty() { continue; }
            match serde_json::from_str::<Script>(&line) { Ok(s) => scripts.push(s), Err(e) => { eprintln!("bad script line: {} ({})", e, &line[..line.len().min(200)]); std::process::exit(2); } }
        }
    }
    for i in 0..n_scripted { scripts.push(gen::scripted(seed.wrapping_mul(1_000_003).wrapping_add(i), len, false)); }
    for i in 0..n_adv { scripts.push(gen::scripted(seed.wrapping_mul(2_000_003).wrapping_add(i), len, true)); }
    for i in 0..n_faithful { scripts.push(gen::faithful(seed.wrapping_mul(3_000_017).wrapping_add(i), len)); }
    for i in 0..n_cycles { scripts.push(gen::cycles(seed.wrapping_mul(5_000_011).wrapping_add(i), 2 + (i % 4) as usize)); }
    for i in 0..n_interrupted { scripts.push(gen::interrupted(seed.wrapping_mul(13_000_027).wrapping_add(i))); }
    for i in 0..n_wrapnear { scripts.push(gen::wrapnear(seed.wrapping_mul(17_000_023).wrapping_add(i))); }
    for i in 0..n_limits { scripts.push(gen::limits(seed.wrapping_mul(11_000_003).wrapping_add(i))); }
    for i in 0..n_races { scripts.push(gen::races(seed.wrapping_mul(7_000_003).wrapping_add(i))); }
    for i in 0..n_wrap { scripts.push(gen::wraparound(seed.wrapping_add(i), 66000)); }

    if let Some(only) = arg(&args, "--only").and_then(|s| s.parse::<usize>().ok()) { scripts = vec![scripts[only - 1].clone()]; }
    let mut tr = Trace::new();
    let (mut panics, mut skipped, mut limits) = (0u64, 0u64, 0u64);
    for (i, s) in scripts.iter().enumerate() {
        let (p, k, l) = run_script(s, (i + 1) as u64, seed.wrapping_add(i as u64), &mut tr);
        panics += p; skipped += k; limits += l;
    }
    tr.write_to(&out).expect("write trace");
    if let Some(path) = scripts_out {
        let mut f = std::io::BufWriter::new(std::fs::File::create(path).expect("scripts-out"));
        for s in &scripts { writeln!(f, "{}", serde_json::to_string(s).unwrap()).unwrap(); }
    }
    println!("{}", serde_json::json!({"runs": scripts.len(), "events": tr.lines.len(), "panics": panics, "inapplicable": skipped, "pump_limits": limits}));
}
