SPECIFICATION Spec
CONSTANTS MaxOps = 3  MaxConns = 2  PidMax = 3  Budgets = {0, 1, 4}
INVARIANT Tracked
CHECK_DEADLOCK FALSE
