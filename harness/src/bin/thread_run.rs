//! Runs byte-pump / result-delivery scenarios against the REAL threaded client
//! (`gneiss_mqtt::client::new_threaded_client`, and the threaded WebSocket client built by
//! `ThreadedClientBuilder` over a loopback socket), and records what happened as ndjson:
//! the packets the transport received (decoded by the reference codec), the publishes surfaced to
//! the application, and the result of every submitted operation.  Verdicts come from MonC13.

use gneiss_mqtt::client::config::*;
use gneiss_mqtt::client::*;
use gneiss_mqtt::mqtt::*;
use serde::{Deserialize, Serialize};
use serde_json::{json, Value};
use std::collections::VecDeque;
use std::io::{BufRead, Read, Write};
use std::sync::{Arc, Mutex};
use std::time::{Duration, Instant};
use verif_harness::refcodec as rc;
use verif_harness::refcodec::{Packet, V};
use verif_harness::trace::Trace;

fn d_true() -> bool { true }

#[derive(Clone, Debug, Serialize, Deserialize, Default)]
struct Cfg {
    #[serde(default)] src: String,
    /// "plain" (scripted in-memory transport) | "ws" (threaded WebSocket client over loopback)
    #[serde(default)] adapter: String,
    #[serde(default)] write_chunk: usize,     // 0 = unlimited
    #[serde(default)] read_chunk: usize,      // 0 = unlimited
    /// every n-th write call reports would-block before accepting anything (0 = never)
    #[serde(default)] block_every: usize,
    #[serde(default = "d_true")] auto_broker: bool,
    /// ws: after the CONNACK the broker stops reading for this long (the client's writes fill the socket buffers and block)
    #[serde(default)] ws_stall_ms: u64,
    /// extreme values the builders accept: "max" = Duration::MAX, "halfplus" = just above half of it, "zero"
    #[serde(default)] base_tok: String,
    #[serde(default)] max_tok: String,
    #[serde(default)] connect_timeout_tok: String,
    #[serde(default)] ping_timeout_tok: String,
    /// what connection attempts yield: "" ok | "refuse"
    #[serde(default)] connect: String,
    #[serde(default)] connect_timeout_ms: u64,
    #[serde(default)] base_ms: u64,
    #[serde(default)] max_ms: u64,
    /// new connections start with their writes stalled (the script releases them)
    #[serde(default)] stall_new: bool,
    /// Settle waits its whole time (lifecycle runs: there is no operation whose result would tell that things have settled)
    #[serde(default)] settle_full: bool,
}

#[derive(Clone, Debug, Serialize, Deserialize)]
#[serde(tag = "a")]
enum Step {
    Start {},
    Stop { #[serde(default)] disc: bool },
    Close {},
    /// what the next connection attempts yield: ok | refuse
    ConnectPlan { mode: String },
    /// connack_ok | connack_fail | garbage  (plain transport, auto_broker off)
    Send { what: String },
    WriteStall { on: bool },
    WriteError {},
    ReadError {},
    AutoBroker { on: bool },
    /// wait until the client has written a complete CONNECT on the current connection (bounded)
    WaitWritten {},
    /// wait until the client is connected (CONNACK delivered), bounded
    WaitConnected {},
    Publish { #[serde(default)] qos: u8, #[serde(default)] size: usize, #[serde(default)] callback: bool, #[serde(default)] ack: String },
    Subscribe {},
    /// the broker sends `n` QoS 0 publishes to the client; plain: as one byte stream; ws: one message per entry of `messages`
    /// (sizes in packets per message), or each packet split in `split` messages
    Inbound { n: usize, #[serde(default)] size: usize, #[serde(default)] per_message: usize,
              /// ws: cut the concatenated packets into messages of these sizes (the last message takes the rest); overrides per_message
              #[serde(default)] cuts: Vec<usize> },
    Sleep { ms: u64 },
    PeerClose {},
    /// wait for everything to finish: results, surfaced publishes
    Settle { ms: u64 },
}

#[derive(Clone, Debug, Serialize, Deserialize)]
struct Script { #[serde(default)] cfg: Cfg, steps: Vec<Step> }

// ---- scripted in-memory transport (non-blocking semantics, like the sockets the client normally uses) ----

#[derive(Default)]
struct Shared {
    inbox: VecDeque<u8>,
    eof: bool,
    written: Vec<u8>,
    parsed: usize,
    write_chunk: usize,
    read_chunk: usize,
    block_every: usize,
    writes: usize,
    auto: bool,
    connacked: bool,
    write_stall: bool,
    write_err: bool,
    read_err: bool,
}

struct Scripted(Arc<Mutex<Shared>>);

fn broker_answers(s: &mut Shared) -> Vec<Packet> {
    let mut answers = Vec::new();
    if !s.auto { return answers; }      // what arrives while the automatic broker is off is answered when it is switched on
    let framed = rc::frame(&s.written[s.parsed..]);
    let base = s.parsed;
    for (first, body, _start, end) in framed.frames {
        s.parsed = base + end;
        if let Ok(p) = rc::decode(first, &body, true) {
            match p.ptype {
                rc::CONNECT => { answers.push(Packet::new(rc::CONNACK).with("session_present", V::Flag(false)).with("reason_code", V::U(0))); s.connacked = true; }
                rc::PUBLISH => { match p.u("qos").unwrap_or(0) { 1 => answers.push(Packet::new(rc::PUBACK).with("packet_id", V::U(p.pid() as u64)).with("reason_code", V::U(0))), 2 => answers.push(Packet::new(rc::PUBREC).with("packet_id", V::U(p.pid() as u64)).with("reason_code", V::U(0))), _ => {} } }
                rc::PUBREL => answers.push(Packet::new(rc::PUBCOMP).with("packet_id", V::U(p.pid() as u64)).with("reason_code", V::U(0))),
                rc::SUBSCRIBE => answers.push(Packet::new(rc::SUBACK).with("packet_id", V::U(p.pid() as u64)).with("reason_codes", V::List(vec![V::U(0); p.list("subscriptions").len()]))),
                rc::PINGREQ => answers.push(Packet::new(rc::PINGRESP)),
                _ => {}
            }
        }
    }
    answers
}

impl Read for Scripted {
    fn read(&mut self, buf: &mut [u8]) -> std::io::Result<usize> {
        let mut s = self.0.lock().unwrap();
        if !s.inbox.is_empty() {
            let mut n = buf.len().min(s.inbox.len());
            if s.read_chunk > 0 { n = n.min(s.read_chunk); }
            for i in 0..n { buf[i] = s.inbox.pop_front().unwrap(); }
            return Ok(n);
        }
        if s.read_err { return Err(std::io::Error::from(std::io::ErrorKind::ConnectionReset)); }
        if s.eof { return Ok(0); }
        Err(std::io::Error::from(std::io::ErrorKind::WouldBlock))
    }
}

impl Write for Scripted {
    fn write(&mut self, data: &[u8]) -> std::io::Result<usize> {
        let mut s = self.0.lock().unwrap();
        s.writes += 1;
        if s.write_err { return Err(std::io::Error::from(std::io::ErrorKind::BrokenPipe)); }
        if s.write_stall { return Err(std::io::Error::from(std::io::ErrorKind::WouldBlock)); }
        if s.block_every > 0 && s.writes % s.block_every == 0 { return Err(std::io::Error::from(std::io::ErrorKind::WouldBlock)); }
        let mut n = data.len();
        if s.write_chunk > 0 { n = n.min(s.write_chunk); }
        s.written.extend_from_slice(&data[..n]);
        let answers = broker_answers(&mut s);
        for a in &answers { let bytes = rc::encode(a, true, None); s.inbox.extend(bytes.iter()); }
        Ok(n)
    }
    fn flush(&mut self) -> std::io::Result<()> { Ok(()) }
}

// ---- WebSocket broker on a loopback socket ----------------------------------------------------------

struct WsBroker { port: u16, state: Arc<Mutex<WsState>> }
#[derive(Default)]
struct WsState { received: Vec<u8>, parsed: usize, to_send: VecDeque<Vec<u8>>, connacked: bool, close: bool, stop: bool, frames_in: usize, stall_ms: u64, stalled: bool }

fn start_ws_broker(stall_ms: u64) -> Option<WsBroker> {
    let listener = std::net::TcpListener::bind("127.0.0.1:0").ok()?;
    let port = listener.local_addr().ok()?.port();
    let state = Arc::new(Mutex::new(WsState { stall_ms, ..Default::default() }));
    let st = state.clone();
    std::thread::spawn(move || {
        listener.set_nonblocking(true).ok();
        let t0 = Instant::now();
        loop {
            if st.lock().unwrap().stop || t0.elapsed() > Duration::from_secs(60) { return; }
            match listener.accept() {
                Ok((stream, _)) => {
                    stream.set_nonblocking(false).ok();
                    let mut ws = match tungstenite::accept(stream) { Ok(w) => w, Err(_) => continue };
                    ws.get_mut().set_nonblocking(true).ok();
                    loop {
                        { let s = st.lock().unwrap(); if s.stop { let _ = ws.close(None); return; } // the peer's close follows everything it has queued: the Close frame goes out right behind the last message
                          if s.close && s.to_send.is_empty() { let _ = ws.close(None); let _ = ws.flush(); break; } }
                        let stall = { let mut s = st.lock().unwrap(); if s.connacked && s.to_send.is_empty() && !s.stalled && s.stall_ms > 0 { s.stalled = true; s.stall_ms } else { 0 } };
                        if stall > 0 { std::thread::sleep(Duration::from_millis(stall)); }
                        match ws.read() {
                            Ok(tungstenite::Message::Binary(b)) => {
                                let mut s = st.lock().unwrap();
                                s.frames_in += 1;
                                s.received.extend_from_slice(&b);
                                let framed = rc::frame(&s.received[s.parsed..]);
                                let base = s.parsed;
                                for (first, body, _a, end) in framed.frames {
                                    s.parsed = base + end;
                                    if let Ok(p) = rc::decode(first, &body, true) {
                                        let ans = match p.ptype {
                                            rc::CONNECT => { s.connacked = true; Some(Packet::new(rc::CONNACK).with("session_present", V::Flag(false)).with("reason_code", V::U(0))) }
                                            rc::PUBLISH => match p.u("qos").unwrap_or(0) { 1 => Some(Packet::new(rc::PUBACK).with("packet_id", V::U(p.pid() as u64)).with("reason_code", V::U(0))), 2 => Some(Packet::new(rc::PUBREC).with("packet_id", V::U(p.pid() as u64)).with("reason_code", V::U(0))), _ => None },
                                            rc::PUBREL => Some(Packet::new(rc::PUBCOMP).with("packet_id", V::U(p.pid() as u64)).with("reason_code", V::U(0))),
                                            rc::SUBSCRIBE => Some(Packet::new(rc::SUBACK).with("packet_id", V::U(p.pid() as u64)).with("reason_codes", V::List(vec![V::U(0); p.list("subscriptions").len()]))),
                                            rc::PINGREQ => Some(Packet::new(rc::PINGRESP)),
                                            _ => None,
                                        };
                                        if let Some(a) = ans { s.to_send.push_back(rc::encode(&a, true, None)); }
                                    }
                                }
                            }
                            Ok(_) => {}
                            Err(tungstenite::Error::Io(e)) if e.kind() == std::io::ErrorKind::WouldBlock => {}
                            Err(_) => break,
                        }
                        let next = st.lock().unwrap().to_send.pop_front();
                        if let Some(m) = next {
                            ws.get_mut().set_nonblocking(false).ok();
                            let r = ws.send(tungstenite::Message::Binary(m));
                            ws.get_mut().set_nonblocking(true).ok();
                            if r.is_err() { break; }
                        } else { std::thread::sleep(Duration::from_millis(1)); }
                    }
                }
                Err(_) => std::thread::sleep(Duration::from_millis(2)),
            }
        }
    });
    Some(WsBroker { port, state })
}

// ---- running a script -------------------------------------------------------------------------------

use verif_harness::trace::{payload_for, tag_of};

enum Pending { Pub(SyncPublishResult), Sub(SyncSubscribeResult), Cb(Arc<Mutex<Option<bool>>>) }

fn run_script(script: &Script, run_no: u64, tr: &mut Trace) {
    let cfg = &script.cfg;
    let ws = cfg.adapter == "ws";
    tr.begin_run(run_no);
    tr.emit("Cfg", vec![("src", json!(cfg.src)), ("driver", json!("threaded")), ("adapter", json!(if ws { "ws" } else { "plain" })), ("faithful", json!(0))]);
    let t0 = Instant::now();
    let mut seq_fields = |tr: &mut Trace, ev: &str, mut f: Vec<(&str, Value)>| { f.insert(0, ("t", json!(t0.elapsed().as_millis() as u64))); tr.emit(ev, f); };

    let conns: Arc<Mutex<Vec<Arc<Mutex<Shared>>>>> = Arc::new(Mutex::new(Vec::new()));
    let plan: Arc<Mutex<String>> = Arc::new(Mutex::new("ok".to_string()));
    let auto_now: Arc<Mutex<bool>> = Arc::new(Mutex::new(cfg.auto_broker));
    let broker = if ws { start_ws_broker(cfg.ws_stall_ms) } else { None };
    if ws && broker.is_none() { seq_fields(tr, "Skipped", vec![("why", json!("no loopback socket"))]); return; }

    let mut cb = MqttClientOptions::builder();
    cb.with_base_reconnect_period(Duration::from_millis(20)).with_max_reconnect_period(Duration::from_millis(1000)).with_reconnect_period_jitter(ExponentialBackoffJitterType::None)
      .with_connect_timeout(Duration::from_millis(3000));
    let tok = |t: &str| -> Option<Duration> { match t { "max" => Some(Duration::MAX), "halfplus" => Some(Duration::from_secs(u64::MAX / 2 + 1)), "zero" => Some(Duration::ZERO), _ => None } };
    if cfg.connect_timeout_ms > 0 { cb.with_connect_timeout(Duration::from_millis(cfg.connect_timeout_ms)); }
    if cfg.base_ms > 0 { cb.with_base_reconnect_period(Duration::from_millis(cfg.base_ms)); }
    if cfg.max_ms > 0 { cb.with_max_reconnect_period(Duration::from_millis(cfg.max_ms)); }
    if let Some(d) = tok(&cfg.base_tok) { cb.with_base_reconnect_period(d); }
    if let Some(d) = tok(&cfg.max_tok) { cb.with_max_reconnect_period(d); }
    if let Some(d) = tok(&cfg.connect_timeout_tok) { cb.with_connect_timeout(d); }
    if let Some(d) = tok(&cfg.ping_timeout_tok) { cb.with_ping_timeout(d); }
    let mut co = ConnectOptions::builder();
    co.with_client_id("verif-threaded").with_keep_alive_interval_seconds(None);
    let mut to = ThreadedOptions::builder();
    to.with_idle_service_sleep(Duration::from_millis(1));

    let client: SyncClientHandle = if ws {
        let mut b = gneiss_mqtt::client::ThreadedClientBuilder::new("127.0.0.1", broker.as_ref().unwrap().port);
        b.with_client_options(cb.build()).with_connect_options(co.build()).with_threaded_options(to.build()).with_websocket_options(SyncWebsocketOptions::builder().build());
        match b.build() { Ok(c) => c, Err(_) => { seq_fields(tr, "Skipped", vec![("why", json!("builder failed"))]); return; } }
    } else {
        let (fc, c2, fplan, fauto) = (conns.clone(), cfg.clone(), plan.clone(), auto_now.clone());
        let factory: Arc<dyn Fn() -> gneiss_mqtt::error::GneissResult<Scripted> + Send + Sync> = Arc::new(move || {
            if c2.connect == "refuse" || *fplan.lock().unwrap() == "refuse" { return Err(gneiss_mqtt::error::GneissError::from(std::io::Error::from(std::io::ErrorKind::ConnectionRefused))); }
            let shared = Arc::new(Mutex::new(Shared { write_chunk: c2.write_chunk, read_chunk: c2.read_chunk, block_every: c2.block_every, auto: *fauto.lock().unwrap(), write_stall: c2.stall_new, ..Default::default() }));
            fc.lock().unwrap().push(shared.clone());
            Ok(Scripted(shared))
        });
        new_threaded_client(cb.build(), co.build(), to.build(), factory)
    };

    let recvd: Arc<Mutex<Vec<(u64, bool, usize)>>> = Arc::new(Mutex::new(Vec::new()));
    let lifecycle: Arc<Mutex<Vec<String>>> = Arc::new(Mutex::new(Vec::new()));
    let (r2, l2) = (recvd.clone(), lifecycle.clone());
    let listener: Arc<ClientEventListenerCallback> = Arc::new(move |e: Arc<ClientEvent>| {
        match &*e {
            ClientEvent::PublishReceived(p) => { let payload = p.publish.payload().map(|x| x.to_vec()).unwrap_or_default(); let tag = tag_of(&payload).unwrap_or(0); let intact = payload == payload_for(tag, payload.len()); r2.lock().unwrap().push((tag, intact, payload.len())); }
            ClientEvent::ConnectionAttempt(_) => l2.lock().unwrap().push("Attempt".into()),
            ClientEvent::ConnectionSuccess(_) => l2.lock().unwrap().push("Success".into()),
            ClientEvent::ConnectionFailure(_) => l2.lock().unwrap().push("Failure".into()),
            ClientEvent::Disconnection(_) => l2.lock().unwrap().push("Disconnection".into()),
            ClientEvent::Stopped(_) => l2.lock().unwrap().push("Stopped".into()),
            _ => {}
        }
    });

    let mut pending: Vec<(u64, Pending)> = Vec::new();
    let mut next_op = 1u64; let mut next_in = 1000u64; let mut closed = false; let mut first_start = true;
    let mut logged_wire = 0usize; let mut logged_recv = 0usize; let mut wire_conn = 0usize; let mut ws_logged = 0usize;
    let mut sent_total = 0usize;

    // decode and log what the transport has received so far
    let mut ws_bad_flag = false;
    let mut log_wire = |tr: &mut Trace, conns: &Arc<Mutex<Vec<Arc<Mutex<Shared>>>>>, broker: &Option<WsBroker>, logged_wire: &mut usize, wire_conn: &mut usize, ws_logged: &mut usize| {
        let ws_bad = &mut ws_bad_flag;
        let mut out: Vec<(usize, String, u16, u64, u8)> = Vec::new();
        if let Some(b) = broker {
            let s = b.state.lock().unwrap();
            let framed = rc::frame(&s.received[*ws_logged..]);
            let base = *ws_logged;
            for (first, body, _a, end) in framed.frames {
                *ws_logged = base + end;
                if *ws_bad { break; }
                match rc::decode(first, &body, true) { Ok(p) => { let (tag, intact) = if p.ptype == rc::PUBLISH { let pl = p.bytes("payload").map(|x| x.to_vec()).unwrap_or_default(); let t = tag_of(&pl).unwrap_or(0); (t, (pl == payload_for(t, pl.len())) as u8) } else { (0, 1) }; out.push((1, rc::type_name(p.ptype).to_string(), p.pid(), tag, intact)); } Err(_) => { *ws_bad = true; out.push((1, "UNDECODABLE".into(), 0, 0, 0)); } }
            }
            if framed.error_at.is_some() && !*ws_bad { *ws_bad = true; out.push((1, "UNDECODABLE".into(), 0, 0, 0)); }
        } else {
            let list = conns.lock().unwrap().clone();
            for (ci, c) in list.iter().enumerate() {
                if ci + 1 < *wire_conn { continue; }
                if ci + 1 > *wire_conn { *wire_conn = ci + 1; *logged_wire = 0; }
                let s = c.lock().unwrap();
                let framed = rc::frame(&s.written[*logged_wire..]);
                let base = *logged_wire;
                for (first, body, _a, end) in framed.frames {
                    *logged_wire = base + end;
                    match rc::decode(first, &body, true) { Ok(p) => { let (tag, intact) = if p.ptype == rc::PUBLISH { let pl = p.bytes("payload").map(|x| x.to_vec()).unwrap_or_default(); let t = tag_of(&pl).unwrap_or(0); (t, (pl == payload_for(t, pl.len())) as u8) } else { (0, 1) }; out.push((ci + 1, rc::type_name(p.ptype).to_string(), p.pid(), tag, intact)); } Err(_) => out.push((ci + 1, "UNDECODABLE".into(), 0, 0, 0)) }
                }
                if framed.error_at.is_some() { out.push((ci + 1, "UNDECODABLE".into(), 0, 0, 0)); }
            }
        }
        for (conn, ty, pid, tag, intact) in out { tr.emit("Wrote", vec![("conn", json!(conn)), ("type", json!(ty)), ("pid", json!(pid)), ("tag", json!(tag)), ("intact", json!(intact))]); }
    };

    let mut logged_life = 0usize;
    let mut poll = |tr: &mut Trace, pending: &mut Vec<(u64, Pending)>, logged_recv: &mut usize| {
        let life: Vec<String> = lifecycle.lock().unwrap().clone();
        for kind in life.iter().skip(logged_life) { tr.emit("ClientEv", vec![("kind", json!(kind))]); }
        logged_life = life.len();
        // wire first (a result may only be judged after what was written has been logged)
        let list: Vec<(u64, bool, usize)> = recvd.lock().unwrap().clone();
        for (tag, intact, _len) in list.iter().skip(*logged_recv) { tr.emit("Recv", vec![("tag", json!(tag)), ("intact", json!(*intact as u8))]); }
        *logged_recv = list.len();
        let mut still = Vec::new();
        for (id, p) in pending.drain(..) {
            let r: Option<bool> = match &p { Pending::Pub(rx) => rx.try_recv().map(|r| r.is_ok()), Pending::Sub(rx) => rx.try_recv().map(|r| r.is_ok()), Pending::Cb(slot) => slot.lock().unwrap().take() };
            match r { Some(ok) => tr.emit("OpResult", vec![("op", json!(id)), ("ok", json!(ok as u8))]), None => still.push((id, p)) }
        }
        *pending = still;
    };

    for step in &script.steps {
        match step {
            Step::Start {} => { let r = client.start(if first_start { Some(listener.clone()) } else { None }); first_start = false; tr.emit("User", vec![("req", json!("UserStart")), ("accepted", json!(r.is_ok() as u8))]); }
            Step::Stop { disc } => {
                let opts = if *disc { Some(StopOptions::builder().with_disconnect_packet(DisconnectPacket::builder().build()).build()) } else { None };
                let r = client.stop(opts);
                tr.emit("User", vec![("req", json!(if *disc { "UserStopDisc" } else { "UserStop" })), ("accepted", json!(r.is_ok() as u8))]);
            }
            Step::ConnectPlan { mode } => { *plan.lock().unwrap() = mode.clone(); }
            Step::WriteStall { on } => { if let Some(c) = conns.lock().unwrap().last() { c.lock().unwrap().write_stall = *on; } tr.emit("Net", vec![("what", json!(if *on { "WriteStall" } else { "WriteResume" }))]); }
            Step::WriteError {} => { if let Some(c) = conns.lock().unwrap().last() { c.lock().unwrap().write_err = true; } tr.emit("Net", vec![("what", json!("WriteError"))]); }
            Step::ReadError {} => { if let Some(c) = conns.lock().unwrap().last() { c.lock().unwrap().read_err = true; } tr.emit("Net", vec![("what", json!("ReadError"))]); }
            Step::AutoBroker { on } => {
                *auto_now.lock().unwrap() = *on;
                if let Some(c) = conns.lock().unwrap().last() { let mut s = c.lock().unwrap(); s.auto = *on; if *on { let answers = broker_answers(&mut s); for a in &answers { let bytes = rc::encode(a, true, None); s.inbox.extend(bytes.iter()); } } }
            }
            Step::WaitWritten {} => {
                let t = Instant::now(); let mut found = false;
                while t.elapsed() < Duration::from_secs(3) && !found {
                    if let Some(c) = conns.lock().unwrap().last() { let s = c.lock().unwrap(); found = rc::frame(&s.written).frames.iter().any(|(f, _, _, _)| f >> 4 == rc::CONNECT); }
                    if !found { std::thread::sleep(Duration::from_millis(1)); }
                }
                tr.emit("Waited", vec![("what", json!("CONNECT")), ("found", json!(found as u8))]);
            }
            Step::Send { what } => {
                let bytes: Vec<u8> = match what.as_str() {
                    "connack_ok" => rc::encode(&Packet::new(rc::CONNACK).with("session_present", V::Flag(false)).with("reason_code", V::U(0)), true, None),
                    "connack_fail" => rc::encode(&Packet::new(rc::CONNACK).with("session_present", V::Flag(false)).with("reason_code", V::U(0x87)), true, None),
                    _ => vec![0xff, 0xff, 0xff, 0xff, 0xff, 0x01],
                };
                if let Some(c) = conns.lock().unwrap().last() { c.lock().unwrap().inbox.extend(bytes.iter()); }
                tr.emit("SentRaw", vec![("what", json!(what))]);
            }
            Step::Close {} => { let r = client.close(); closed = true; tr.emit("User", vec![("req", json!("UserClose")), ("accepted", json!(r.is_ok() as u8))]); }
            Step::WaitConnected {} => {
                let t = Instant::now();
                while t.elapsed() < Duration::from_secs(5) { if lifecycle.lock().unwrap().iter().any(|x| x == "Success") { break; } std::thread::sleep(Duration::from_millis(2)); }
                tr.emit("Waited", vec![("what", json!("connected")), ("found", json!(lifecycle.lock().unwrap().iter().any(|x| x == "Success") as u8))]);
            }
            Step::Publish { qos, size, callback, ack } => {
                let id = next_op; next_op += 1;
                let q = match qos { 0 => QualityOfService::AtMostOnce, 1 => QualityOfService::AtLeastOnce, _ => QualityOfService::ExactlyOnce };
                let packet = PublishPacket::builder("t/verif".to_string(), q).with_payload(payload_for(id, *size)).build();
                tr.emit("OpSubmit", vec![("op", json!(id)), ("kind", json!("pub")), ("qos", json!(qos)), ("afterClose", json!(closed as u8))]);
                if *callback {
                    let slot = Arc::new(Mutex::new(None)); let s2 = slot.clone();
                    let r = client.publish_with_callback(packet, None, Box::new(move |res| { *s2.lock().unwrap() = Some(res.is_ok()); }));
                    if r.is_err() { tr.emit("OpResult", vec![("op", json!(id)), ("ok", json!(0)), ("what", json!("synchronous error"))]); } else { pending.push((id, Pending::Cb(slot))); }
                } else {
                    let opts = match ack.as_str() { "" => None, "max" => Some(PublishOptions::builder().with_ack_timeout(Duration::MAX).build()), "zero" => Some(PublishOptions::builder().with_ack_timeout(Duration::ZERO).build()),
                        ms => ms.parse::<u64>().ok().map(|x| PublishOptions::builder().with_ack_timeout(Duration::from_millis(x)).build()) };
                    pending.push((id, Pending::Pub(client.publish(packet, opts))));
                }
            }
            Step::Subscribe {} => {
                let id = next_op; next_op += 1;
                tr.emit("OpSubmit", vec![("op", json!(id)), ("kind", json!("sub")), ("qos", json!(0)), ("afterClose", json!(closed as u8))]);
                pending.push((id, Pending::Sub(client.subscribe(SubscribePacket::builder().with_subscription_simple(format!("s/{}/a", id), QualityOfService::AtLeastOnce).build(), None))));
            }
            Step::Inbound { n, size, per_message, cuts } => {
                let mut packets: Vec<Vec<u8>> = Vec::new();
                for _ in 0..*n {
                    let tag = next_in; next_in += 1;
                    let p = Packet::new(rc::PUBLISH).with("topic", V::S("in/verif".into())).with("qos", V::U(0)).with("packet_id", V::U(0)).with("duplicate", V::Flag(false)).with("retain", V::Flag(false)).with("payload", V::Bytes(payload_for(tag, *size)));
                    packets.push(rc::encode(&p, true, None));
                    tr.emit("Sent", vec![("conn", json!(1)), ("tag", json!(tag)), ("size", json!(size))]);
                    sent_total += 1;
                }
                if let Some(b) = &broker {
                    // per_message packets per WebSocket message (0: all in one)
                    let k = if *per_message == 0 { packets.len().max(1) } else { *per_message };
                    let mut s = b.state.lock().unwrap();
                    if !cuts.is_empty() {
                        let all: Vec<u8> = packets.concat();
                        let mut pos = 0;
                        for c in cuts { if pos >= all.len() { break; } let end = (pos + (*c).max(1)).min(all.len()); s.to_send.push_back(all[pos..end].to_vec()); pos = end; }
                        if pos < all.len() { s.to_send.push_back(all[pos..].to_vec()); }
                    } else { for group in packets.chunks(k) { s.to_send.push_back(group.concat()); } }
                } else if let Some(c) = conns.lock().unwrap().last() { let mut s = c.lock().unwrap(); for p in &packets { s.inbox.extend(p.iter()); } }
            }
            Step::Sleep { ms } => std::thread::sleep(Duration::from_millis(*ms)),
            Step::PeerClose {} => { if let Some(b) = &broker { b.state.lock().unwrap().close = true; } else if let Some(c) = conns.lock().unwrap().last() { c.lock().unwrap().eof = true; } tr.emit("Net", vec![("what", json!("PeerClose"))]); }
            Step::Settle { ms } => {
                // `ms` is how long a quiet machine needs at most; a loaded one gets four times that before anything is concluded
                let t = Instant::now();
                while t.elapsed() < Duration::from_millis(*ms * 4) {
                    log_wire(tr, &conns, &broker, &mut logged_wire, &mut wire_conn, &mut ws_logged);
                    poll(tr, &mut pending, &mut logged_recv);
                    if cfg.settle_full { if t.elapsed() >= Duration::from_millis(*ms) { break; } }
                    else if pending.is_empty() && recvd.lock().unwrap().len() >= sent_total && t.elapsed() > Duration::from_millis(30) { break; }
                    std::thread::sleep(Duration::from_millis(2));
                }
            }
        }
        log_wire(tr, &conns, &broker, &mut logged_wire, &mut wire_conn, &mut ws_logged);
        poll(tr, &mut pending, &mut logged_recv);
    }
    // end: the loop is known to have exited once a request is refused
    // is the event loop still there?  Adding a listener goes through the command channel without touching the lifecycle.
    let probe: Arc<ClientEventListenerCallback> = Arc::new(|_e: Arc<ClientEvent>| {});
    let alive = client.add_event_listener(probe).is_ok();
    std::thread::sleep(Duration::from_millis(20));
    // the WebSocket broker reads on its own thread: wait until it has been quiet for a while before the final log
    if let Some(b) = &broker {
        let t = Instant::now(); let mut last = b.state.lock().unwrap().received.len(); let mut quiet = Instant::now();
        while t.elapsed() < Duration::from_secs(20) && quiet.elapsed() < Duration::from_millis(400) {
            std::thread::sleep(Duration::from_millis(10));
            let n = b.state.lock().unwrap().received.len();
            if n != last { last = n; quiet = Instant::now(); }
        }
    }
    log_wire(tr, &conns, &broker, &mut logged_wire, &mut wire_conn, &mut ws_logged);
    poll(tr, &mut pending, &mut logged_recv);
    for (id, _) in &pending { tr.emit("OpUnresolved", vec![("op", json!(id))]); }
    let ws_frames = broker.as_ref().map(|b| b.state.lock().unwrap().frames_in).unwrap_or(0);
    let stalled = conns.lock().unwrap().last().map(|c| c.lock().unwrap().write_stall).unwrap_or(false);
    tr.emit("End", vec![("loopAlive", json!(alive as u8)), ("closed", json!(closed as u8)), ("unresolved", json!(pending.len())), ("judge", json!(!stalled as u8)), ("expectAllRecv", json!((!closed) as u8)), ("wsFrames", json!(ws_frames)),
        // a real socket that is closed with unread data resets the connection and the peer may lose what it had not read yet
        ("lossless", json!((!ws) as u8))]);
    if !closed { let _ = client.close(); }
    if let Some(b) = &broker { b.state.lock().unwrap().stop = true; }
    let _ = seq_fields;
}

fn arg(args: &[String], name: &str) -> Option<String> { args.iter().position(|a| a == name).and_then(|i| args.get(i + 1).cloned()) }

fn main() {
    if std::env::var("VERIF_SHOW_PANICS").is_err() { std::panic::set_hook(Box::new(|_| {})); }
    let args: Vec<String> = std::env::args().collect();
    let out = arg(&args, "--out").unwrap_or_else(|| "threaded.ndjson".into());
    let path = arg(&args, "--scripts-in").expect("--scripts-in <file>");
    let f = std::fs::File::open(&path).expect("scripts-in");
    let mut scripts: Vec<Script> = Vec::new();
    for line in std::io::BufReader::new(f).lines() {
        let line = line.unwrap();
        if line.trim().is_empty() { continue; }
        match serde_json::from_str::<Script>(&line) { Ok(s) => scripts.push(s), Err(e) => { eprintln!("bad script line: {} ({})", e, &line[..line.len().min(200)]); std::process::exit(2); } }
    }
    let mut all = Trace::new();
    let mut panics = 0u64;
    for (i, s) in scripts.iter().enumerate() {
        let mut tr = Trace::new();
        let r = std::panic::catch_unwind(std::panic::AssertUnwindSafe(|| run_script(s, (i + 1) as u64, &mut tr)));
        if r.is_err() { panics += 1; tr.emit("Panic", vec![("where", json!("harness-or-client"))]); }
        all.lines.extend(tr.lines);
    }
    all.write_to(&out).expect("write trace");
    let mut so = std::io::stdout();
    writeln!(so, "{}", json!({"runs": scripts.len(), "events": all.lines.len(), "panics": panics})).unwrap();
}
