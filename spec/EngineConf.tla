----------------------------- MODULE EngineConf -----------------------------
(* Named alphabets for the bounded instances of EngineMC (TLC configuration files substitute them
   for EngineMC's constants: `CfgSet <- Cfg_Base` and so on). *)
EXTENDS EngineMC

BaseCfg == [policy |-> "All", drain |-> "None", retries |-> None, ver |-> 5, pingTmo |-> 1, ka |-> 0, rejoin |-> "PostSuccess",
            resolver |-> "null", lruMax |-> 0, cid |-> "c", tamIn |-> 0, sei |-> 0, connectUnits |-> 1]

Cfg_One == {BaseCfg}
Cfg_Policies == {[BaseCfg EXCEPT !.policy = p, !.drain = d] : p \in {"All", "Ack", "Q1", "None"}, d \in {"None", "One"}}
Cfg_Policies4 == {[BaseCfg EXCEPT !.policy = p] : p \in {"All", "Ack", "Q1", "None"}}
Cfg_Retries == {[BaseCfg EXCEPT !.retries = r] : r \in {None, 0, 1}}
Cfg_AliasIn == {[BaseCfg EXCEPT !.tamIn = 1]}
Cfg_PoliciesRetries == {[BaseCfg EXCEPT !.policy = p, !.retries = r] : p \in {"All", "None"}, r \in {None, 0, 1}}
Cfg_BigConnect == {[BaseCfg EXCEPT !.connectUnits = 2]}
Cfg_KeepAlive == {[BaseCfg EXCEPT !.ka = k, !.pingTmo = pt] : k \in {0, 1, 2}, pt \in {1, 3}}
Cfg_Rejoin == {[BaseCfg EXCEPT !.rejoin = r, !.cid = c] : r \in {"PostSuccess", "Always", "Never"}, c \in {"c", ""}}
Cfg_Alias == {[BaseCfg EXCEPT !.resolver = r, !.lruMax = 1, !.tamIn = 1, !.ver = v] : r \in {"null", "manual", "lru"}, v \in {5}}
Cfg_RejoinBig == {[BaseCfg EXCEPT !.rejoin = r, !.cid = c, !.connectUnits = 2] : r \in {"PostSuccess", "Always", "Never"}, c \in {"c", ""}}
Cfg_Wake == {[BaseCfg EXCEPT !.connectUnits = u, !.ka = k, !.pingTmo = 1] : u \in {1, 2}, k \in {0, 1}}
Cfg_Drain == {[BaseCfg EXCEPT !.drain = d] : d \in {"None", "One"}}
Cfg_Ka1 == {[BaseCfg EXCEPT !.ka = 1, !.drain = "One"]}
Cfg_AliasExact == {[BaseCfg EXCEPT !.resolver = r, !.lruMax = 2] : r \in {"null", "manual", "lru"}}
Cfg_Versions == {[BaseCfg EXCEPT !.ver = v, !.policy = p] : v \in {5, 311}, p \in {"All", "Ack"}}

Op(kind, qos) == [kind |-> kind, qos |-> qos, tmo |-> None, retain |-> FALSE, need |-> "none", topic |-> "t1", ualias |-> 0, units |-> 1, plen |-> -1, n |-> IF kind = "pub" THEN 0 ELSE 1]

Sub_Pubs == {Op("pub", 0), Op("pub", 1), Op("pub", 2)}
Sub_Acked == {Op("pub", 1), Op("pub", 2), Op("sub", 0)}
Sub_All == {Op("pub", 0), Op("pub", 1), Op("pub", 2), Op("sub", 0), Op("unsub", 0)}
Sub_Q1 == {Op("pub", 1)}
Sub_Big == {[Op("pub", 0) EXCEPT !.units = 2], [Op("pub", 2) EXCEPT !.units = 2, !.tmo = 2], Op("sub", 0)}
Sub_Q2 == {Op("pub", 2)}
Sub_Q12Big == {Op("pub", 1), [Op("pub", 2) EXCEPT !.units = 2]}
Sub_Timeouts == {[Op("pub", 1) EXCEPT !.tmo = 2], [Op("pub", 2) EXCEPT !.tmo = 2], [Op("sub", 0) EXCEPT !.tmo = 2], Op("pub", 1)}
Sub_Timeouts2 == {[Op("pub", 2) EXCEPT !.tmo = 2], [Op("sub", 0) EXCEPT !.tmo = 2]}
Sub_Big2 == {[Op("pub", 2) EXCEPT !.units = 2, !.tmo = 2], Op("sub", 0)}
Sub_Mix3 == {Op("pub", 0), Op("pub", 2), Op("sub", 0)}
Sub_Alias == {[Op("pub", 0) EXCEPT !.topic = t, !.ualias = a, !.retain = r] : t \in {"t1", "t2"}, a \in {0, 1}, r \in {FALSE, TRUE}}
\* QoS 0 publishes to "t1" with exact payload lengths: on the wire 7 + plen bytes without an alias, 10 + plen when a new alias
\* is bound (topic and alias property), 8 + plen when the alias replaces the topic - the limit of Ck_Exact (30) falls between them
Sub_Exact == {[Op("pub", 0) EXCEPT !.ualias = a, !.plen = n, !.units = 2] : a \in {0, 1}, n \in {20, 21, 22, 23, 24}}
Sub_Validation == {Op("pub", 1), Op("pub", 2), [Op("pub", 0) EXCEPT !.retain = TRUE], [Op("sub", 0) EXCEPT !.need = "wild", !.n = 2],
                   [Op("sub", 0) EXCEPT !.need = "shared", !.n = 2], [Op("sub", 0) EXCEPT !.need = "sharedwild", !.n = 2], [Op("pub", 0) EXCEPT !.need = "oversize"], [Op("sub", 0) EXCEPT !.need = "badfilter", !.n = 2]}

Ck(sp, rm) == [sp |-> sp, rm |-> rm, ka |-> -1, tam |-> -1, mqos |-> -1, mps |-> -1, ret |-> -1, wild |-> -1, subid |-> -1, shared |-> -1, acid |-> "", rc |-> 0]
Ck_Plain == {Ck(0, -1), Ck(1, -1)}
Ck_Rm == {Ck(sp, rm) : sp \in {0, 1}, rm \in {1, 2, -1}}
Ck_Rm1 == {Ck(sp, 1) : sp \in {0, 1}}
Ck_Handshake == {Ck(0, -1), Ck(1, -1), [Ck(0, -1) EXCEPT !.rc = 135], [Ck(0, -1) EXCEPT !.acid = "assigned"]}
Ck_Rm1Ka == {[Ck(0, 1) EXCEPT !.ka = k] : k \in {-1, 1}}
Ck_Rm1Plain == {Ck(0, -1), Ck(1, -1), Ck(1, 1)}
Ck_Fail == {Ck(0, -1), Ck(1, -1), [Ck(0, -1) EXCEPT !.rc = 135]}
Ck_Ka == {[Ck(0, -1) EXCEPT !.ka = k] : k \in {-1, 1}}
Ck_Alias == {[Ck(0, -1) EXCEPT !.tam = tm, !.ret = rt] : tm \in {0, 1, 2}, rt \in {-1, 0}}
Ck_Caps == {[Ck(0, -1) EXCEPT !.mqos = q, !.ret = rt, !.wild = w, !.shared = sh, !.mps = m] : q \in {-1, 1, 0}, rt \in {-1, 0}, w \in {-1, 0}, sh \in {-1, 0}, m \in {-1, 100}}
\* a server with a small Maximum Packet Size that grants topic aliases: publishes of exact sizes around the limit (Sub_Exact)
Ck_Exact == {[Ck(0, -1) EXCEPT !.tam = 2, !.mps = 30]}
Ck_Acid == {Ck(0, -1), [Ck(0, -1) EXCEPT !.acid = "assigned"], Ck(1, -1)}

In(qos, pid, dup) == [qos |-> qos, pid |-> pid, dup |-> dup, alias |-> "none", topic |-> "in1"]
In_None == {}
In_Basic == {In(0, -1, FALSE), In(1, -1, FALSE), In(2, -1, FALSE), In(2, -2, TRUE)}
In_Q1 == {In(1, -1, FALSE)}
In_Q2only == {In(2, -1, FALSE)}
In_Q2 == {In(2, -1, FALSE), In(2, -2, TRUE), In(1, -1, FALSE)}
In_Alias == {[In(0, -1, FALSE) EXCEPT !.alias = a, !.topic = t] : a \in {"none", "bind", "reuse", "unknown", "zero", "range"}, t \in {"in1", "in2"}}
=============================================================================
