//! Seeded random scenario generator (source S2).  Produces scripts, so every run is replayable
//! from its JSON.  Two modes: `scripted` (explicit service / write-completion / ack steps with
//! adversarial server behaviour mixed in) and `faithful` (the driver contract of C08/C14: service
//! only at reported times, an automatic conforming broker).

use crate::sim::{RunCfg, Script, Step};
use rand::rngs::StdRng;
use rand::seq::SliceRandom;
use rand::{Rng, SeedableRng};

fn pick<T: Clone>(rng: &mut StdRng, xs: &[T]) -> T { xs.choose(rng).unwrap().clone() }

pub fn random_cfg(rng: &mut StdRng, faithful: bool) -> RunCfg {
    let mut c = RunCfg::default();
    c.policy = pick(rng, &["All", "Ack", "Q1", "None"]).to_string();
    c.drain = pick(rng, &["None", "One"]).to_string();
    c.retries = pick(rng, &[-1, -1, 0, 1, 2]);
    c.ver = pick(rng, &[5, 5, 311]);
    c.rejoin = pick(rng, &["PostSuccess", "PostSuccess", "Always", "Never"]).to_string();
    c.resolver = pick(rng, &["null", "null", "lru:1", "lru:2", "manual"]).to_string();
    c.cid = pick(rng, &["c", "c", ""]).to_string();
    c.ka = pick(rng, &[-1, 0, 1, 2, 3, 7, 60]);
    c.ping_tmo = pick(rng, &[100, 400, 1000, 10000]);
    c.tam_in = pick(rng, &[-1, 0, 1, 2]);
    c.sei = pick(rng, &[-1, 0, 60]);
    c.copt = if rng.gen_bool(0.3) { rng.gen_range(0..128) } else { 0 };
    c.faithful = faithful;
    c.cap = pick(rng, &[4, 5, 7, 9, 16, 64, 4096]);
    c.ack_delay = pick(rng, &[0, 0, 1, 5, 50, 700]);
    c.b_rm = pick(rng, &[-1, 1, 2, 3, 65535]);
    c.b_ka = pick(rng, &[-1, -1, 0, 1, 2, 5]);
    c.b_tam = pick(rng, &[-1, 0, 1, 2, 5]);
    c.b_mqos = pick(rng, &[-1, -1, -1, 1, 0]);
    c.b_ret = pick(rng, &[-1, -1, 0, 1]);
    c
}

fn random_submit(rng: &mut StdRng) -> Step {
    let kind = pick(rng, &["pub", "pub", "pub", "pub", "sub", "unsub"]).to_string();
    let variant = if rng.gen_bool(0.12) { pick(rng, &["wild", "shared", "sharedwild", "sharedwild", "subid", "badfilter", "props", "nolocalshared", "emptytopic", "wildtopic"]).to_string() } else { String::new() };
    Step::Submit {
        kind,
        qos: pick(rng, &[0, 1, 1, 2, 2]),
        topic: pick(rng, &["t1", "t1", "t2", "t3"]).to_string(),
        tmo: pick(rng, &[-1, -1, 100, 1000]),
        retain: rng.gen_bool(0.1),
        size: pick(rng, &[0, 0, 10, 40, 300]),
        alias: pick(rng, &[0, 0, 0, 1, 2, 3]),
        entries: pick(rng, &[1, 1, 2, 3]),
        variant,
    }
}

fn random_connack(rng: &mut StdRng, adversarial: bool) -> Step {
    Step::Connack {
        sp: rng.gen_bool(0.5),
        rm: pick(rng, &[-1, 1, 2, 3, 65535]),
        ka: pick(rng, &[-1, -1, 0, 1, 2, 5]),
        tam: pick(rng, &[-1, 0, 1, 2, 5]),
        mqos: pick(rng, &[-1, -1, -1, 1, 0]),
        rc: if adversarial && rng.gen_bool(0.15) { 0x87 } else { 0 },
        ret: pick(rng, &[-1, -1, 0, 1]),
        wild: pick(rng, &[-1, -1, 0, 1]),
        subid: pick(rng, &[-1, -1, 0, 1]),
        shared: pick(rng, &[-1, -1, 0, 1]),
        mps: pick(rng, &[-1, -1, -1, 30, 100]),
        acid: pick(rng, &["", "", "assigned"]).to_string(),
    }
}

/// Scripted mode.  `adversarial` adds wrong-type / unknown-id / duplicate acks, out-of-place
/// CONNACKs, garbage, AUTH and acks fed while nothing is outstanding.
pub fn scripted(seed: u64, len: usize, adversarial: bool) -> Script {
    let mut rng = StdRng::seed_from_u64(seed);
    let mut cfg = random_cfg(&mut rng, false);
    cfg.src = format!("S2:scripted:{}:{}", if adversarial { "adv" } else { "conf" }, seed);
    let mut steps = Vec::new();
    let caps = [4usize, 5, 7, 9, 16, 33, 64, 4096, 4096];
    let mut open = false;
    for _ in 0..len {
        let r = rng.gen_range(0..100);
        let s = match r {
            0..=17 => random_submit(&mut rng),
            18..=37 => Step::Service { cap: pick(&mut rng, &caps) },
            38..=49 => Step::WriteDone {},
            50..=61 => { if adversarial && rng.gen_bool(0.2) { Step::Ack { which: pick(&mut rng, &["oldest", "newest", "1"]).to_string(), how: pick(&mut rng, &["wrongtype", "unknownid", "dup", "wrongcount", "fail"]).to_string() } } else { Step::Ack { which: if rng.gen_bool(0.85) { "oldest".into() } else { "newest".into() }, how: if rng.gen_bool(0.1) { "fail".into() } else if rng.gen_bool(0.1) { "nomatch".into() } else { "normal".into() } } } }
            62..=66 => { if open { open = false; Step::Close {} } else { open = true; Step::Open { deadline: pick(&mut rng, &[50, 1000, 30000]) } } }
            // a failing CONNACK carries a code of the protocol version in use (0x87 is not a 3.1.1 return code: such bytes are not a CONNACK at all)
            67..=72 => { let c = random_connack(&mut rng, adversarial); if cfg.ver != 5 { if let Step::Connack { sp, rm, ka, tam, mqos, rc, ret, wild, subid, shared, mps, acid } = c { Step::Connack { sp, rm, ka, tam, mqos, rc: if rc > 5 { 5 } else { rc }, ret, wild, subid, shared, mps, acid } } else { c } } else { c } }
            73..=77 => Step::InPub { qos: pick(&mut rng, &[0, 1, 2, 2]), pid: pick(&mut rng, &[-1, -1, -2, 3]), dup: rng.gen_bool(0.3), alias: if adversarial { pick(&mut rng, &["none", "none", "bind", "reuse", "unknown", "zero", "range"]).to_string() } else { pick(&mut rng, &["none", "none", "bind", "reuse"]).to_string() }, topic: pick(&mut rng, &["in1", "in2"]).to_string() },
            78..=80 => Step::InPubrel { pid: if adversarial { pick(&mut rng, &[-1, -1, -3]) } else { -1 } },
            81..=86 => Step::Advance { ms: pick(&mut rng, &[1, 10, 99, 100, 101, 500, 1000, 2000]) },
            87..=89 => Step::TickToNext { plus: pick(&mut rng, &[-1, 0, 0, 1]) },
            90..=91 => Step::NextSvc {},
            92 => Step::Pingresp {},
            93 => Step::Drain { cap: pick(&mut rng, &caps) },
            94 => { if adversarial { pick(&mut rng, &[Step::Garbage { n: 3 }, Step::Auth {}, Step::ServerDisconnect {}, Step::Raw { hex: "20020000".into(), legal: false, name: String::new() }]) } else { Step::Snapshot {} } }
            95 => Step::Disconnect {},
            96 => { if rng.gen_bool(0.3) { Step::Reset {} } else if rng.gen_bool(0.5) { Step::Cursor { v: pick(&mut rng, &[1u16, 2, 3, 65535]) } } else { Step::Snapshot {} } }
            _ => Step::Open { deadline: 30000 },
        };
        if let Step::Open { .. } = s { open = true; }
        if let Step::Close {} = s { open = false; }
        steps.push(s);
    }
    steps.push(Step::Reset {});
    Script { cfg, steps }
}

/// Faithful mode: only environment events; the driver loop and the conforming broker do the rest.
pub fn faithful(seed: u64, len: usize) -> Script {
    let mut rng = StdRng::seed_from_u64(seed);
    let mut cfg = random_cfg(&mut rng, true);
    cfg.src = format!("S2:faithful:{}", seed);
    // a faithful run must be able to finish: keep timeouts generous relative to ack delays
    let mut steps = vec![Step::Open { deadline: 30000 }];
    let mut open = true;
    for _ in 0..len {
        let r = rng.gen_range(0..100);
        let s = match r {
            0..=39 => {
                let mut s = random_submit(&mut rng);
                if let Step::Submit { tmo, variant, .. } = &mut s { *tmo = -1; if variant == "badfilter" || variant == "emptytopic" || variant == "wildtopic" { variant.clear(); } }
                s
            }
            40..=74 => Step::Run { ms: pick(&mut rng, &[0, 1, 5, 50, 400, 1000, 2500]) },
            75..=82 => { if open { open = false; Step::Close {} } else { open = true; Step::Open { deadline: 30000 } } }
            83..=90 => Step::Quiesce {},
            _ => Step::Advance { ms: pick(&mut rng, &[1, 10, 100]) },
        };
        steps.push(s);
    }
    if !open { steps.push(Step::Open { deadline: 30000 }); }
    steps.push(Step::Quiesce {});
    steps.push(Step::Reset {});
    Script { cfg, steps }
}

/// Reconnect cycles with tiny buffers: every cycle connects, puts a few operations in flight, moves
/// them forward by single small steps and drops the connection at a random point, so that every
/// disconnect point of the QoS 1/2 state machine (queued, half encoded, unflushed, awaiting PUBACK /
/// PUBREC / PUBCOMP, PUBREL queued or half encoded - also for an already retransmitted publish) is
/// visited; the last cycle lets a conforming broker finish everything.
pub fn cycles(seed: u64, n_cycles: usize) -> Script {
    let mut rng = StdRng::seed_from_u64(seed);
    let mut cfg = random_cfg(&mut rng, false);
    cfg.src = format!("S2:cycles:{}", seed);
    cfg.ka = pick(&mut rng, &[-1, 0, 0, 60]);
    cfg.ack_delay = 0;
    if rng.gen_bool(0.7) { cfg.retries = -1; }
    let tiny = [4usize, 4, 5, 6, 7, 7, 9, 12, 20];
    let mut steps = Vec::new();
    let submit = |rng: &mut StdRng| -> Step {
        let kind = pick(rng, &["pub", "pub", "pub", "pub", "pub", "sub", "unsub"]).to_string();
        Step::Submit { kind, qos: pick(rng, &[0, 1, 1, 2, 2, 2]), topic: pick(rng, &["t1", "t2"]).to_string(), tmo: pick(rng, &[-1, -1, -1, 1000]), retain: false,
            size: pick(rng, &[0, 0, 10]), alias: pick(rng, &[0, 0, 1]), entries: pick(rng, &[1, 2]), variant: String::new() }
    };
    for c in 0..n_cycles {
        if rng.gen_bool(0.3) { steps.push(submit(&mut rng)); }
        steps.push(Step::Open { deadline: 30000 });
        steps.push(Step::Drain { cap: pick(&mut rng, &[16, 64, 4096]) });
        // now and then the broker refuses the connection (server unavailable, not authorized): the cycle ends there
        if c > 0 && rng.gen_bool(0.12) {
            steps.push(Step::Connack { sp: false, rm: -1, ka: -1, tam: -1, mqos: -1, rc: if cfg.ver == 5 { pick(&mut rng, &[0x87, 0x88]) } else { pick(&mut rng, &[3, 5]) }, ret: -1, wild: -1, subid: -1, shared: -1, mps: -1, acid: String::new() });
            steps.push(Step::Close {});
            continue;
        }
        steps.push(Step::Connack { sp: c > 0 && rng.gen_bool(0.8), rm: pick(&mut rng, &[-1, -1, 1, 2, 3]), ka: -1, tam: pick(&mut rng, &[-1, 0, 2]), mqos: -1, rc: 0, ret: -1, wild: -1, subid: -1, shared: -1, mps: -1, acid: String::new() });
        for _ in 0..rng.gen_range(0..4) { steps.push(submit(&mut rng)); }
        let micro = rng.gen_range(0..14);
        for _ in 0..micro {
            let r = rng.gen_range(0..100);
            steps.push(match r {
                0..=39 => Step::Service { cap: pick(&mut rng, &tiny) },
                40..=59 => Step::Flush {},
                60..=79 => Step::Ack { which: "oldest".into(), how: if rng.gen_bool(0.1) { "nomatch".into() } else { "normal".into() } },
                // the allocator's cursor next to the identifiers of the oldest (possibly still unacknowledged) operations, or about to wrap
                80..=81 => Step::Cursor { v: pick(&mut rng, &[1u16, 1, 2, 3, 65534, 65535]) },
                82..=86 => Step::InPub { qos: pick(&mut rng, &[1, 2]), pid: -1, dup: false, alias: "none".into(), topic: "in1".into() },
                87..=90 => Step::InPubrel { pid: -1 },
                91..=95 => submit(&mut rng),
                _ => Step::Advance { ms: pick(&mut rng, &[1, 50, 999, 1000]) },
            });
        }
        steps.push(Step::Close {});
    }
    steps.push(Step::Open { deadline: 30000 });
    steps.push(Step::Drain { cap: 4096 });
    steps.push(Step::Connack { sp: rng.gen_bool(0.8), rm: -1, ka: -1, tam: -1, mqos: -1, rc: 0, ret: -1, wild: -1, subid: -1, shared: -1, mps: -1, acid: String::new() });
    steps.push(Step::Quiesce {});
    steps.push(Step::Reset {});
    Script { cfg, steps }
}

/// Packet-id wrap-around: preset of the allocator cursor is not scriptable, so this run simply
/// pushes more than `n` acknowledged operations through one connection.
pub fn wraparound(seed: u64, n: usize) -> Script {
    let mut rng = StdRng::seed_from_u64(seed);
    let mut cfg = RunCfg::default();
    cfg.src = format!("S2:wrap:{}", seed);
    cfg.faithful = true;
    cfg.b_rm = pick(&mut rng, &[-1, 3, 10]);
    let mut steps = vec![Step::Open { deadline: 30000 }, Step::Run { ms: 10 }];
    for i in 0..n {
        steps.push(Step::Submit { kind: if i % 97 == 0 { "sub".into() } else { "pub".into() }, qos: 1 + (i % 2) as u8, topic: "t1".into(), tmo: -1, retain: false, size: 0, alias: 0, entries: 1, variant: String::new() });
        if i % 50 == 49 { steps.push(Step::Run { ms: 5 }); }
    }
    steps.push(Step::Quiesce {});
    steps.push(Step::Reset {});
    Script { cfg, steps }
}

/// Timers racing completions: a few operations with short ack timeouts are written (often several
/// in one batch), then the clock is moved to just before / at / after a deadline while the write
/// completion, the acknowledgements, a service call and sometimes a disconnection arrive in a
/// random order.  Exercises ack timeouts against late write completions and late acks.
pub fn races(seed: u64) -> Script {
    let mut rng = StdRng::seed_from_u64(seed);
    let mut cfg = random_cfg(&mut rng, false);
    cfg.src = format!("S2:races:{}", seed);
    cfg.ka = pick(&mut rng, &[-1, 0, 0, 1, 60]);
    cfg.ack_delay = 0;
    let mut steps = vec![Step::Open { deadline: 30000 }, Step::Drain { cap: 4096 },
        Step::Connack { sp: false, rm: pick(&mut rng, &[-1, -1, 2]), ka: -1, tam: -1, mqos: -1, rc: 0, ret: -1, wild: -1, subid: -1, shared: -1, mps: -1, acid: String::new() }];
    let tmos = [50i64, 100, 100, -1];
    for _round in 0..rng.gen_range(1..4) {
        for _ in 0..rng.gen_range(1..5) {
            let kind = pick(&mut rng, &["pub", "pub", "pub", "sub", "unsub"]).to_string();
            steps.push(Step::Submit { kind, qos: pick(&mut rng, &[0, 0, 1, 2]), topic: "t1".into(), tmo: pick(&mut rng, &tmos), retain: false, size: pick(&mut rng, &[0, 10, 300]), alias: 0, entries: 1, variant: String::new() });
        }
        steps.push(Step::Service { cap: pick(&mut rng, &[7usize, 64, 4096, 4096]) });
        let mut tail = vec![Step::WriteDone {}, Step::Service { cap: 4096 }, Step::Advance { ms: pick(&mut rng, &[49, 50, 51, 99, 100, 101, 150]) },
                            Step::Ack { which: "oldest".into(), how: "normal".into() }, Step::Ack { which: "newest".into(), how: "normal".into() }, Step::Service { cap: 4096 }, Step::WriteDone {}, Step::NextSvc {}, Step::NextSvc {}];
        if rng.gen_bool(0.3) { tail.push(Step::Advance { ms: pick(&mut rng, &[1, 49, 50, 100]) }); tail.push(Step::Service { cap: 4096 }); }
        if rng.gen_bool(0.2) { tail.push(Step::Snapshot {}); }
        tail.shuffle(&mut rng);
        steps.extend(tail);
        if rng.gen_bool(0.25) {
            steps.push(Step::Close {});
            steps.push(Step::Open { deadline: 30000 });
            steps.push(Step::Drain { cap: 4096 });
            steps.push(Step::Connack { sp: rng.gen_bool(0.5), rm: -1, ka: -1, tam: -1, mqos: -1, rc: 0, ret: -1, wild: -1, subid: -1, shared: -1, mps: -1, acid: String::new() });
        }
    }
    steps.push(Step::Snapshot {});
    steps.push(Step::Reset {});
    Script { cfg, steps }
}

/// Packets at the server's limits: the CONNACK announces a small maximum packet size (and topic aliases, a maximum
/// QoS, retain availability); publishes are sized to land a few bytes below, at and above the limit - with and
/// without topic aliases, first use and reuse of an alias - so that "validated size" and "size on the wire" must agree.
pub fn limits(seed: u64) -> Script {
    let mut rng = StdRng::seed_from_u64(seed);
    let mut cfg = random_cfg(&mut rng, false);
    cfg.src = format!("S2:limits:{}", seed);
    cfg.ver = 5;
    cfg.resolver = pick(&mut rng, &["lru:2", "lru:2", "manual", "null", "lru:1"]).to_string();
    cfg.ka = 0;
    cfg.ack_delay = 0;
    let mps: i64 = pick(&mut rng, &[24, 40, 64, 100, 130, 200]);
    let mut steps = vec![Step::Open { deadline: 30000 }, Step::Drain { cap: 4096 },
        Step::Connack { sp: false, rm: -1, ka: -1, tam: pick(&mut rng, &[-1, 1, 2, 2]), mqos: pick(&mut rng, &[-1, -1, 1]), rc: 0, ret: pick(&mut rng, &[-1, -1, 0]), wild: -1, subid: -1, shared: -1, mps, acid: String::new() }];
    for _ in 0..rng.gen_range(4..12) {
        let qos: u8 = pick(&mut rng, &[0, 0, 1, 2]);
        let topic = pick(&mut rng, &["t1", "t1", "t2", "t3"]).to_string();
        // PUBLISH (MQTT 5): 1 + remaining-length bytes + 2 + topic + [2 packet id] + 1 property length [+ 3 alias] + payload
        let overhead = 1 + 1 + 2 + topic.len() as i64 + if qos > 0 { 2 } else { 0 } + 1;
        let delta: i64 = rng.gen_range(-7..8);
        let size = (mps - overhead + delta).max(0) as usize;
        steps.push(Step::Submit { kind: "pub".into(), qos, topic, tmo: -1, retain: rng.gen_bool(0.1), size, alias: pick(&mut rng, &[0, 1, 1, 2]), entries: 1, variant: String::new() });
        if rng.gen_bool(0.6) { steps.push(Step::Drain { cap: pick(&mut rng, &[16usize, 64, 4096]) }); }
        if rng.gen_bool(0.4) { steps.push(Step::Ack { which: "oldest".into(), how: "normal".into() }); }
    }
    steps.push(Step::Quiesce {});
    steps.push(Step::Reset {});
    Script { cfg, steps }
}

/// Retransmission interrupted again and again: a handful of QoS 1 / 2 publishes in flight (some already answered with
/// PUBREC), the connection lost, the session resumed, the retransmission cut short by a small socket buffer and the
/// connection lost once more - one to three times - before a last resumed connection lets everything finish.
/// Order, identifiers and DUP flags of what is retransmitted must not depend on how often it was interrupted.
pub fn interrupted(seed: u64) -> Script {
    let mut rng = StdRng::seed_from_u64(seed);
    let mut cfg = random_cfg(&mut rng, false);
    cfg.src = format!("S2:interrupted:{}", seed);
    cfg.ka = 0;
    cfg.ack_delay = 0;
    cfg.retries = -1;
    cfg.policy = pick(&mut rng, &["All", "All", "Ack", "Q1", "None"]).to_string();
    let connack = |sp: bool, rm: i64| Step::Connack { sp, rm, ka: -1, tam: -1, mqos: -1, rc: 0, ret: -1, wild: -1, subid: -1, shared: -1, mps: -1, acid: String::new() };
    let mut steps = vec![Step::Open { deadline: 30000 }, Step::Drain { cap: 4096 }, connack(false, -1)];
    let n = rng.gen_range(2..7);
    for _ in 0..n {
        steps.push(Step::Submit { kind: "pub".into(), qos: pick(&mut rng, &[1, 1, 2, 2, 0]), topic: "t1".into(), tmo: -1, retain: false, size: pick(&mut rng, &[0, 10, 30]), alias: 0, entries: 1, variant: String::new() });
    }
    if rng.gen_bool(0.3) { steps.push(Step::Submit { kind: "sub".into(), qos: 1, topic: "t1".into(), tmo: -1, retain: false, size: 0, alias: 0, entries: 1, variant: String::new() }); }
    steps.push(Step::Drain { cap: 4096 });
    for _ in 0..rng.gen_range(0..n) { steps.push(Step::Ack { which: pick(&mut rng, &["oldest", "newest"]).to_string(), how: "normal".into() }); }
    if rng.gen_bool(0.5) { steps.push(Step::Drain { cap: 4096 }); }
    for _ in 0..rng.gen_range(1..4) {
        steps.push(Step::Close {});
        steps.push(Step::Open { deadline: 30000 });
        steps.push(Step::Drain { cap: 4096 });
        steps.push(connack(rng.gen_bool(0.9), pick(&mut rng, &[-1, -1, 2])));
        // the socket takes a few bytes: one or two packets whole, the next one in part
        for _ in 0..rng.gen_range(1..3) {
            steps.push(Step::Service { cap: rng.gen_range(5..70) });
            if rng.gen_bool(0.5) { steps.push(Step::Flush {}); }
        }
        if rng.gen_bool(0.3) { steps.push(Step::Ack { which: "oldest".into(), how: "normal".into() }); }
        if rng.gen_bool(0.2) { steps.push(Step::Submit { kind: "pub".into(), qos: pick(&mut rng, &[1, 2]), topic: "t1".into(), tmo: -1, retain: false, size: 0, alias: 0, entries: 1, variant: String::new() }); }
    }
    steps.push(Step::Close {});
    steps.push(Step::Open { deadline: 30000 });
    steps.push(Step::Drain { cap: 4096 });
    steps.push(connack(rng.gen_bool(0.9), -1));
    steps.push(Step::Quiesce {});
    steps.push(Step::Reset {});
    Script { cfg, steps }
}

/// Identifier wrap-around next to live identifiers, across reconnects: a few acknowledged operations in flight, a reconnect
/// (session resumed or lost), then the allocator's cursor placed on or just before the identifiers still in use (or at
/// 65534 from the start, so that it wraps by itself) and more operations submitted.  Every identifier on the wire must
/// be free at that moment, whatever the cycle did to the allocation table.
pub fn wrapnear(seed: u64) -> Script {
    let mut rng = StdRng::seed_from_u64(seed);
    let mut cfg = random_cfg(&mut rng, false);
    cfg.src = format!("S2:wrapnear:{}", seed);
    cfg.ka = 0;
    cfg.ack_delay = 0;
    cfg.retries = -1;
    cfg.policy = pick(&mut rng, &["All", "All", "Ack", "Q1"]).to_string();
    let connack = |sp: bool| Step::Connack { sp, rm: -1, ka: -1, tam: -1, mqos: -1, rc: 0, ret: -1, wild: -1, subid: -1, shared: -1, mps: -1, acid: String::new() };
    let acked = |rng: &mut StdRng| -> Step {
        let kind = pick(rng, &["pub", "pub", "pub", "sub", "unsub"]).to_string();
        Step::Submit { kind, qos: pick(rng, &[1, 1, 2]), topic: "t1".into(), tmo: -1, retain: false, size: 0, alias: 0, entries: 1, variant: String::new() }
    };
    let mut steps = Vec::new();
    let natural = rng.gen_bool(0.3);
    if natural { steps.push(Step::Cursor { v: pick(&mut rng, &[65533u16, 65534, 65535]) }); }
    steps.push(Step::Open { deadline: 30000 });
    steps.push(Step::Drain { cap: 4096 });
    steps.push(connack(false));
    let k = rng.gen_range(1..4);
    for _ in 0..k { steps.push(acked(&mut rng)); }
    steps.push(Step::Drain { cap: 4096 });
    if rng.gen_bool(0.3) { steps.push(Step::Ack { which: pick(&mut rng, &["oldest", "newest"]).to_string(), how: "normal".into() }); }
    for _ in 0..rng.gen_range(1..3) {
        steps.push(Step::Close {});
        steps.push(Step::Open { deadline: 30000 });
        steps.push(Step::Drain { cap: 4096 });
        steps.push(connack(rng.gen_bool(0.5)));
        if rng.gen_bool(0.8) { steps.push(Step::Drain { cap: 4096 }); }
        if !natural || rng.gen_bool(0.5) { steps.push(Step::Cursor { v: if natural { pick(&mut rng, &[65534u16, 65535]) } else { pick(&mut rng, &[1u16, 1, 2, 3, 65535]) } }); }
        for _ in 0..rng.gen_range(1..4) { steps.push(acked(&mut rng)); }
        steps.push(Step::Drain { cap: 4096 });
        for _ in 0..rng.gen_range(0..3) { steps.push(Step::Ack { which: pick(&mut rng, &["oldest", "newest"]).to_string(), how: "normal".into() }); }
        steps.push(Step::Drain { cap: 4096 });
    }
    steps.push(Step::Quiesce {});
    steps.push(Step::Reset {});
    Script { cfg, steps }
}
