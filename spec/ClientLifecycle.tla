-------------------------- MODULE ClientLifecycle --------------------------
(***************************************************************************************************
 Implementation-shaped specification of the client state machine around the protocol engine:
   MqttClientImpl (gneiss-mqtt/src/client/mod.rs: handle_incoming_operation,
   compute_optional_state_transition, transition_to_state) and the event loop both drivers share
   (client_event_loop / process_stopped / process_connecting / process_connected /
   process_pending_reconnect in client/asynchronous/tokio/mod.rs and
   client/synchronous/threaded/mod.rs), composed with a transport environment and the user.

 The protocol engine is reduced to what the lifecycle depends on: its state, where the user's
 DISCONNECT operation is (not accepted / queued / written-unflushed), whether the CONNECT has been
 flushed, and whether a write completion is pending.  One loop iteration (one select! branch plus
 the transition check that follows it) is one action.

 Defects: the constant selects which of the defects found in the pinned tree are modelled
   "close-fails-with-queued-disconnect"  connection-closed handling returns an error when a user
                                          DISCONNECT is still queued or unflushed (both loops exit)
   "stop-waits-for-refused-disconnect"   stop with a DISCONNECT while the engine is not connected:
                                          the packet is refused at intake but the client waits for it
   "close-waits-for-discarded-disconnect" close after a stop with DISCONNECT: the reset discards the queued DISCONNECT
                                          but the client keeps waiting for it to be written (found by TLC on this spec)
   "abandoned-result-fails-close"         (introduced by a seeded change, not found in the pinned tree) the error a result callback returns when nobody
                                          waits for the operation's result any more (the future was dropped) escapes connection-closed handling
   "stale-last-connack"                   (introduced by a seeded change, not found in the pinned tree) the last CONNACK is not forgotten when a
                                          new attempt starts, so an attempt that ends before its CONNACK is reported as a Disconnection
 All are repaired in /repo ("fix:" commits); the main instance runs with Defects = {} and a second
 instance per defect shows that TLC finds each of them when it is switched back on.
 ***************************************************************************************************)
EXTENDS Naturals, Sequences, FiniteSets, TLC, Json

CONSTANTS Defects, MaxRequests, MaxAttempts,
          ExportOn, ExportEvery     \* script export: record the decisions taken; print one history in ExportEvery

VARIABLES cur, desired, stopOpt, lastConnack,     \* MqttClientImpl
          pst, disc, connectSent, pwc,            \* protocol engine (reduced)
          chan,                                   \* command channel (user requests not yet taken by the loop)
          tr, inbound, hasOut,                    \* transport: state, server messages not yet read, unwritten bytes in the driver
          loop,                                   \* "run" | "exited"
          aband,                                  \* an operation whose result nobody waits for (its future was dropped) is held by the engine and
                                                  \* will be failed when this connection ends
          mon,                                    \* event-stream monitor (MonC12's state)
          nreq, natt, closed,                     \* bounds / bookkeeping
          hist                                    \* decisions so far (only in export mode; excluded from the view)

vars == <<cur, desired, stopOpt, lastConnack, pst, disc, connectSent, pwc, chan, tr, inbound, hasOut, loop, aband, mon, nreq, natt, closed, hist>>
View == <<cur, desired, stopOpt, lastConnack, pst, disc, connectSent, pwc, chan, tr, inbound, hasOut, loop, aband, mon, nreq, natt, closed>>
H(d) == hist' = IF ExportOn THEN Append(hist, d) ELSE hist

----------------------------------------------------------------------------------------------------
\* the property monitor is the one that judges the real clients' recorded event streams (spec/mon/MonC12.tla)
C12 == INSTANCE MonC12
MonInit == C12!Init0
AsEvent(x) == IF x \in {"UserStart", "UserStop", "UserStopDisc", "UserClose"}
              THEN [ev |-> "User", run |-> 0, seq |-> 0, req |-> x, accepted |-> 1]
              ELSE [ev |-> "ClientEv", run |-> 0, seq |-> 0, kind |-> x]
RECURSIVE MonAll(_, _)
MonAll(m, es) == IF es = <<>> THEN m ELSE MonAll(C12!Apply(m, AsEvent(Head(es))), Tail(es))

----------------------------------------------------------------------------------------------------
\* reduced protocol engine: each operator returns [pst, disc, connectSent, pwc, err]

P == [pst |-> pst, disc |-> disc, connectSent |-> connectSent, pwc |-> pwc, err |-> FALSE]

ProtoOpened(p) ==
    IF p.pst # "Disconnected" THEN [p EXCEPT !.pst = "Halted", !.err = TRUE]
    ELSE [p EXCEPT !.pst = "PendingConnack", !.connectSent = "no", !.pwc = FALSE, !.disc = "none"]

ProtoClosed(p) ==
    IF p.pst = "Disconnected" THEN [p EXCEPT !.pst = "Halted", !.err = TRUE]
    ELSE IF p.disc # "none" /\ "close-fails-with-queued-disconnect" \in Defects
         THEN [p EXCEPT !.pst = "Halted", !.disc = "none", !.pwc = FALSE, !.err = TRUE]
    \* the operations the disconnection fails are completed with an error; what their result callbacks return is of no consequence
    ELSE IF aband /\ "abandoned-result-fails-close" \in Defects
         THEN [p EXCEPT !.pst = "Disconnected", !.disc = "none", !.pwc = FALSE, !.err = TRUE]
    ELSE [p EXCEPT !.pst = "Disconnected", !.disc = "none", !.pwc = FALSE]

ProtoUserDisconnect(p) == IF p.pst = "Connected" THEN [p EXCEPT !.disc = "queued"] ELSE p

ProtoReset(p) == [p EXCEPT !.pst = IF @ = "Disconnected" THEN @ ELSE "Halted", !.disc = "none", !.pwc = FALSE]

\* does the engine ask for service now?
ProtoWantsService(p) ==
    /\ ~p.pwc
    /\ \/ p.pst = "PendingConnack" /\ p.connectSent = "no"
       \/ p.pst = "Connected" /\ p.disc = "queued"

ProtoService(p) ==
    CASE p.pst = "PendingConnack" /\ p.connectSent = "no" /\ ~p.pwc -> [p EXCEPT !.connectSent = "encoded", !.pwc = TRUE]
      [] p.pst = "Connected" /\ p.disc = "queued" /\ ~p.pwc -> [p EXCEPT !.disc = "written", !.pst = "PendingDisconnect", !.pwc = TRUE]
      [] p.pst = "Halted" -> [p EXCEPT !.err = TRUE]
      [] OTHER -> p

ProtoWriteCompletion(p) ==
    IF p.pst \in {"Halted", "Disconnected"} \/ ~p.pwc THEN [p EXCEPT !.pst = "Halted", !.err = TRUE]
    ELSE IF p.disc = "written" THEN [p EXCEPT !.pwc = FALSE, !.disc = "none", !.pst = "Halted", !.err = TRUE]      \* UserInitiatedDisconnect
    ELSE [p EXCEPT !.pwc = FALSE, !.connectSent = IF @ = "encoded" THEN "flushed" ELSE @]

ProtoRecv(p, m) ==
    IF p.pst \in {"Halted", "Disconnected"} THEN [p EXCEPT !.pst = "Halted", !.err = TRUE]
    ELSE IF p.pst = "PendingConnack" /\ p.connectSent # "flushed" THEN [p EXCEPT !.pst = "Halted", !.err = TRUE]
    ELSE CASE m = "connack_ok" -> IF p.pst = "PendingConnack" THEN [p EXCEPT !.pst = "Connected"] ELSE [p EXCEPT !.pst = "Halted", !.err = TRUE]
           [] OTHER -> [p EXCEPT !.pst = "Halted", !.err = TRUE]          \* failing CONNACK, garbage, server DISCONNECT

SetP(p) == /\ pst' = p.pst /\ disc' = p.disc /\ connectSent' = p.connectSent /\ pwc' = p.pwc

----------------------------------------------------------------------------------------------------
\* MqttClientImpl

\* compute_optional_state_transition over (cur, desired, stopOpt)
Transition(c, d, so) ==
    CASE c = "Stopped" -> IF d = "Connected" THEN "Connecting" ELSE IF d = "Shutdown" THEN "Shutdown" ELSE "none"
      [] c \in {"Connecting", "PendingReconnect"} -> IF d # "Connected" THEN "Stopped" ELSE "none"
      [] c = "Connected" -> IF d # "Connected" /\ so # "disc" THEN "Stopped" ELSE "none"
      [] OTHER -> "none"

\* transition_to_state(new): primes cur, stopOpt, lastConnack, protocol variables, loop, mon, tr.
\* p: protocol state before the transition; d, so, lc: desired / stop options / last connack at that moment
TransitionTo(new0, p, d, so, lc, preEvents) ==
    LET new1 == IF new0 = "PendingReconnect" /\ d # "Connected" THEN "Stopped" ELSE new0
        new == IF new1 = "Stopped" /\ d = "Shutdown" THEN "Shutdown" ELSE new1
        old == cur
    IN IF old = new THEN /\ cur' = cur /\ stopOpt' = so /\ lastConnack' = lc /\ SetP(p) /\ loop' = loop
                         /\ mon' = MonAll(mon, preEvents) /\ UNCHANGED <<natt>>
       ELSE LET p2 == IF new = "Connected" THEN ProtoOpened(p) ELSE IF old = "Connected" THEN ProtoClosed(p) ELSE p IN
            IF p2.err THEN      \* the `?`: nothing else happens, the caller's loop ends
                /\ cur' = cur /\ stopOpt' = so /\ lastConnack' = lc /\ SetP([p2 EXCEPT !.err = FALSE]) /\ loop' = "exited"
                /\ mon' = MonAll(mon, preEvents) /\ UNCHANGED <<natt>>
            ELSE LET evA == IF new = "Connecting" THEN <<"Attempt">> ELSE <<>>
                     evB == IF old = "Connecting" /\ new # "Connected" THEN <<"Failure">> ELSE <<>>
                     evC == IF old = "Connected" THEN (IF lc = "ok" THEN <<"Disconnection">> ELSE <<"Failure">>) ELSE <<>>
                     evD == IF new = "Stopped" THEN <<"Stopped">> ELSE <<>>
                 IN /\ cur' = new
                    /\ stopOpt' = IF new \in {"Connecting", "Stopped"} THEN "none" ELSE so
                    /\ lastConnack' = IF new = "Connecting" /\ "stale-last-connack" \notin Defects THEN "none" ELSE lc
                    /\ SetP(p2)
                    /\ loop' = IF new = "Shutdown" THEN "exited" ELSE loop
                    /\ mon' = MonAll(mon, preEvents \o evA \o evB \o evC \o evD)
                    /\ natt' = IF new = "Connecting" THEN natt + 1 ELSE natt

\* end of a loop iteration: `next` is what the branch decided ("none": ask compute_optional_state_transition)
EndIteration(next, p, d, so, lc, preEvents) ==
    LET n == IF next # "none" THEN next ELSE Transition(cur, d, so) IN
    IF n = "none" THEN /\ cur' = cur /\ stopOpt' = so /\ lastConnack' = lc /\ SetP(p) /\ loop' = loop /\ mon' = MonAll(mon, preEvents) /\ UNCHANGED natt
    ELSE TransitionTo(n, p, d, so, lc, preEvents)

----------------------------------------------------------------------------------------------------
\* the user

UserRequest(r) ==          \* r in {"Start", "Stop", "StopDisc", "Close"}
    /\ nreq < MaxRequests /\ ~closed
    /\ nreq' = nreq + 1
    /\ closed' = (r = "Close")
    /\ chan' = IF loop = "run" THEN Append(chan, r) ELSE chan            \* a dead loop has dropped the receiver: the request is refused
    /\ mon' = IF loop = "run" THEN MonAll(mon, <<CASE r = "Start" -> "UserStart" [] r = "Stop" -> "UserStop" [] r = "StopDisc" -> "UserStopDisc" [] OTHER -> "UserClose">>) ELSE mon
    /\ UNCHANGED <<cur, desired, stopOpt, lastConnack, pst, disc, connectSent, pwc, tr, inbound, hasOut, loop, natt>>
    /\ H([a |-> r])

\* the application submits an operation the disconnection will fail (a QoS 0 publish under the default offline policy, anything under
\* PreserveNothing) and drops the handle to its result: nothing about the client's lifecycle may depend on it
SubmitAbandoned ==
    /\ loop = "run" /\ cur = "Connected" /\ pst = "Connected" /\ ~aband /\ ~closed
    /\ aband' = TRUE
    /\ UNCHANGED <<cur, desired, stopOpt, lastConnack, pst, disc, connectSent, pwc, chan, tr, inbound, hasOut, loop, mon, nreq, natt, closed>>
    /\ H([a |-> "Abandon"])

\* every other step: the abandoned operation is gone once the client has left the connection
AbandStep == aband' = (aband /\ cur' = "Connected" /\ loop' = "run")
L(A) == A /\ AbandStep

----------------------------------------------------------------------------------------------------
\* loop iterations

\* handle_incoming_operation
TakeOp ==
    /\ loop = "run" /\ chan # <<>> /\ cur # "Shutdown"
    /\ LET r == Head(chan)
           accepted == pst = "Connected"
           p2 == CASE r = "StopDisc" -> IF "stop-waits-for-refused-disconnect" \in Defects \/ accepted THEN ProtoUserDisconnect(P) ELSE P
                   [] r = "Close" -> ProtoReset(P)
                   [] OTHER -> P
           d2 == CASE r = "Start" -> "Connected" [] r \in {"Stop", "StopDisc"} -> "Stopped" [] OTHER -> "Shutdown"
           so2 == CASE r = "Start" -> "none"
                    [] r = "Stop" -> "plain"
                    [] r = "StopDisc" -> IF "stop-waits-for-refused-disconnect" \in Defects \/ accepted THEN "disc" ELSE "plain"
                    [] OTHER -> IF "close-waits-for-discarded-disconnect" \in Defects THEN stopOpt ELSE "none"
       IN /\ chan' = Tail(chan)
          /\ desired' = d2
          /\ EndIteration("none", p2, d2, so2, lastConnack, <<>>)
          /\ UNCHANGED <<tr, inbound, hasOut, nreq, closed>>
    /\ H([a |-> "Loop"])

\* process_connecting: the connection factory was invoked when the state was entered
ConnectOutcome(ok) ==
    /\ loop = "run" /\ cur = "Connecting"
    /\ tr' = IF ok THEN "up" ELSE "none"
    /\ inbound' = <<>> /\ hasOut' = FALSE
    /\ EndIteration(IF ok THEN "Connected" ELSE "PendingReconnect", P, desired, stopOpt, lastConnack, <<>>)
    /\ UNCHANGED <<desired, chan, nreq, closed>>
    /\ H([a |-> IF ok THEN "ConnectOk" ELSE "ConnectRefused"])

\* process_pending_reconnect: the timer fires
ReconnectTimer ==
    /\ loop = "run" /\ cur = "PendingReconnect" /\ natt < MaxAttempts
    /\ EndIteration("Connecting", P, desired, stopOpt, lastConnack, <<>>)
    /\ UNCHANGED <<desired, chan, tr, inbound, hasOut, nreq, closed>>
    /\ H([a |-> "Timer"])

\* helper: when an iteration of process_connected ends in a transition, the stream is shut down
LeaveOrStay == /\ tr' = IF cur' # "Connected" \/ loop' = "exited" THEN "none" ELSE tr
               /\ hasOut' = IF cur' # "Connected" \/ loop' = "exited" THEN FALSE ELSE hasOut

\* process_connected: read branch
ReadData ==
    /\ loop = "run" /\ cur = "Connected" /\ tr = "up" /\ inbound # <<>>
    /\ LET m == Head(inbound)
           p2 == ProtoRecv(P, m)
           lc2 == IF m = "connack_ok" /\ ~p2.err THEN "ok" ELSE IF m = "connack_fail" /\ pst = "PendingConnack" /\ connectSent = "flushed" THEN "fail" ELSE lastConnack
           evs == IF m = "connack_ok" /\ ~p2.err THEN <<"Success">> ELSE <<>>
       IN /\ inbound' = Tail(inbound)
          /\ IF p2.err THEN /\ EndIteration("PendingReconnect", [p2 EXCEPT !.err = FALSE], desired, stopOpt, lc2, evs) /\ tr' = "none" /\ hasOut' = FALSE
             ELSE /\ EndIteration("none", p2, desired, stopOpt, lc2, evs) /\ LeaveOrStay
    /\ UNCHANGED <<desired, chan, nreq, closed>>
    /\ H([a |-> "Loop"])

ReadFailure(kind) ==        \* kind "eof": the peer closed; "error": a read error out of the blue
    /\ loop = "run" /\ cur = "Connected" /\ tr = (IF kind = "eof" THEN "eof" ELSE "up")
    /\ EndIteration("PendingReconnect", P, desired, stopOpt, lastConnack, <<>>)
    /\ tr' = "none" /\ hasOut' = FALSE
    /\ UNCHANGED <<desired, chan, inbound, nreq, closed>>
    /\ H([a |-> IF kind = "eof" THEN "Loop" ELSE "ReadError"])

ServiceIteration ==
    /\ loop = "run" /\ cur = "Connected" /\ tr = "up" /\ ProtoWantsService(P)
    /\ LET p2 == ProtoService(P) IN
       IF p2.err THEN /\ EndIteration("PendingReconnect", [p2 EXCEPT !.err = FALSE], desired, stopOpt, lastConnack, <<>>) /\ tr' = "none" /\ hasOut' = FALSE
       ELSE /\ EndIteration("none", p2, desired, stopOpt, lastConnack, <<>>)
            /\ tr' = IF cur' # "Connected" \/ loop' = "exited" THEN "none" ELSE tr
            /\ hasOut' = IF cur' # "Connected" \/ loop' = "exited" THEN FALSE ELSE p2.pwc
    /\ UNCHANGED <<desired, chan, inbound, nreq, closed>>
    /\ H([a |-> "Loop"])

\* connack timeout inside the engine (service returns an error)
ServiceTimeout ==
    /\ loop = "run" /\ cur = "Connected" /\ tr = "up" /\ pst = "PendingConnack"
    /\ EndIteration("PendingReconnect", [P EXCEPT !.pst = "Halted"], desired, stopOpt, lastConnack, <<>>)
    /\ tr' = "none" /\ hasOut' = FALSE
    /\ UNCHANGED <<desired, chan, inbound, nreq, closed>>
    /\ H([a |-> "Timeout"])

WriteAll ==                 \* the transport takes what is left; flush; write completion
    /\ loop = "run" /\ cur = "Connected" /\ tr = "up" /\ hasOut
    /\ LET p2 == ProtoWriteCompletion(P) IN
       IF p2.err THEN /\ EndIteration("PendingReconnect", [p2 EXCEPT !.err = FALSE], desired, stopOpt, lastConnack, <<>>) /\ tr' = "none" /\ hasOut' = FALSE
       ELSE /\ EndIteration("none", p2, desired, stopOpt, lastConnack, <<>>)
            /\ tr' = IF cur' # "Connected" \/ loop' = "exited" THEN "none" ELSE tr
            /\ hasOut' = FALSE
    /\ UNCHANGED <<desired, chan, inbound, nreq, closed>>
    /\ H([a |-> "WriteAll"])

WriteFailure ==
    /\ loop = "run" /\ cur = "Connected" /\ tr = "up" /\ hasOut
    /\ EndIteration("PendingReconnect", P, desired, stopOpt, lastConnack, <<>>)
    /\ tr' = "none" /\ hasOut' = FALSE
    /\ UNCHANGED <<desired, chan, inbound, nreq, closed>>
    /\ H([a |-> "WriteError"])

\* the server / network
ServerSends(m) ==
    /\ tr = "up" /\ Len(inbound) < 2 /\ cur = "Connected"
    /\ inbound' = Append(inbound, m)
    /\ UNCHANGED <<cur, desired, stopOpt, lastConnack, pst, disc, connectSent, pwc, chan, tr, hasOut, loop, mon, nreq, natt, closed>>
    /\ H([a |-> "Send", what |-> m])

PeerCloses ==
    /\ tr = "up" /\ cur = "Connected"
    /\ tr' = "eof"
    /\ UNCHANGED <<cur, desired, stopOpt, lastConnack, pst, disc, connectSent, pwc, chan, inbound, hasOut, loop, mon, nreq, natt, closed>>
    /\ H([a |-> "PeerClose"])

----------------------------------------------------------------------------------------------------

Init == /\ cur = "Stopped" /\ desired = "Stopped" /\ stopOpt = "none" /\ lastConnack = "none"
        /\ pst = "Disconnected" /\ disc = "none" /\ connectSent = "no" /\ pwc = FALSE
        /\ chan = <<>> /\ tr = "none" /\ inbound = <<>> /\ hasOut = FALSE /\ loop = "run"
        /\ aband = FALSE /\ mon = MonInit /\ nreq = 0 /\ natt = 0 /\ closed = FALSE /\ hist = <<>>

LoopStep == TakeOp \/ ConnectOutcome(TRUE) \/ ConnectOutcome(FALSE) \/ ReconnectTimer \/ ReadData \/ ReadFailure("eof") \/ ReadFailure("error")
            \/ ServiceIteration \/ ServiceTimeout \/ WriteAll \/ WriteFailure

Next == \/ L(\E r \in {"Start", "Stop", "StopDisc", "Close"} : UserRequest(r))
        \/ L(LoopStep)
        \/ L(\E m \in {"connack_ok", "connack_fail", "garbage"} : ServerSends(m))
        \/ L(PeerCloses)
        \/ SubmitAbandoned

\* fairness: the loop keeps iterating, and a transport with nothing left to say eventually reacts
\* (the connect attempt resolves, pending bytes are taken or refused, a read returns)
Spec == Init /\ [][Next]_vars
        /\ WF_vars(L(TakeOp)) /\ WF_vars(L(ConnectOutcome(TRUE) \/ ConnectOutcome(FALSE))) /\ WF_vars(L(ServiceIteration))
        /\ WF_vars(L(WriteAll \/ WriteFailure)) /\ WF_vars(L(ReadData)) /\ WF_vars(L(ReadFailure("eof"))) /\ WF_vars(L(ReconnectTimer))

----------------------------------------------------------------------------------------------------
\* properties (C12)

Export == (ExportOn /\ Len(hist) >= 6 /\ TLCGet("stats").distinct % ExportEvery = 0) => PrintT(<<"SCRIPT", ToJson(hist)>>)

EventStreamWellFormed == mon.errs = <<>>

\* the loop only ever ends because the client was closed
LoopNeverDies == loop = "exited" => cur = "Shutdown"

\* a stop request that no later start supersedes stops the client
StopStops == (desired = "Stopped" /\ chan = <<>>) ~> (cur = "Stopped" \/ desired # "Stopped" \/ chan # <<>>)

\* a stopped client can be started again
StartStarts == (cur = "Stopped" /\ desired = "Connected" /\ loop = "run") ~> (cur # "Stopped" \/ desired # "Connected")

\* close is terminal and is reached
CloseCloses == (desired = "Shutdown") ~> (cur = "Shutdown")
=============================================================================
