#!/bin/bash
# usage: try_patch.sh <patch.diff> <tier> <prop> [<prop> ...]
# Applies a seeded change to /repo, runs the registered checks, and always reverts /repo afterwards.
PATCH=$1; TIER=$2; shift 2
cd /repo || exit 2
if [ -n "$(git status --porcelain --untracked-files=no)" ]; then echo "/repo is dirty; refusing"; exit 2; fi
git apply "$PATCH" || { echo "patch does not apply"; exit 2; }
trap 'git -C /repo checkout -- . ; git -C /verif checkout -- evidence 2>/dev/null' EXIT
cd /verif
for P in "$@"; do
  OUT=$(./check $P --tier $TIER 2>&1); RC=$?
  echo "== $P rc=$RC $(echo "$OUT" | grep -E 'VIOLATION|KNOWN-FINDING|TOOL-ERROR|DRIFT' | head -3 | tr '\n' ' ')"
done
