------------------------------- MODULE MonC08 -------------------------------
(* C08 - the service-time contract never strands work and never spins.  Judged on runs driven by
   the faithful driver (service only at reported times and after each delivered event) against a
   responsive broker. *)
EXTENDS MonBase

(* First clause, for the one kind of due work a monitor can date exactly - an ack timeout: the deadline of an acknowledged
   operation submitted with a timeout is the moment its packet was completely written plus the timeout; while it is
   unresolved and the engine is connected, every next-service time the engine reports is no later than that deadline
   (or than now, once it has passed) - in every run, whatever the driver does (a write completion may be long in coming). *)
Init0 == [run |-> 0, skip |-> FALSE, errs |-> <<>>,
          tops |-> EmptyMap,     \* op -> [tmo, w] for acknowledged operations with an ack timeout; w = -1: not completely written on this connection
          owner |-> EmptyMap,    \* packet id -> op, for the PUBREL half of a QoS 2 publish
          faithful |-> FALSE,
          atQuiesce |-> FALSE,   \* the last marker was a Quiesce on a live connection with a responsive broker
          qstate |-> "",
          idle |-> 0,            \* consecutive service calls, at a reported "now", that did nothing
          lastT |-> -1, lastState |-> ""]

Deadlines(m) == {m.tops[k].w + m.tops[k].tmo : k \in {x \in DOMAIN m.tops : m.tops[x].w >= 0}}
MinOfSet(S) == CHOOSE x \in S : \A y \in S : x <= y

\* bookkeeping of ack-timeout deadlines and the timer rule; every run
Timers(m, e) ==
    CASE e.ev = "Submit" /\ e.tmo >= 0 /\ e.tmo < 1000000000 /\ NeedsAck(e.kind, e.qos) -> [m EXCEPT !.tops = Put(@, e.op, [tmo |-> e.tmo, w |-> -1])]
      [] e.ev = "Tx" /\ e.partial = 0 /\ e.op # 0 /\ Has(m.tops, e.op) /\ e.type \in {"PUBLISH", "SUBSCRIBE", "UNSUBSCRIBE"} ->
             [m EXCEPT !.tops[e.op].w = e.t, !.owner = Put(@, e.pid, e.op)]
      [] e.ev = "Complete" /\ Has(m.tops, e.op) -> [m EXCEPT !.tops = Drop(@, {e.op})]
      [] e.ev \in {"Open", "Close", "Reset"} -> [m EXCEPT !.tops = MapAll(@, LAMBDA o : [o EXCEPT !.w = -1]), !.owner = IF e.ev = "Reset" THEN EmptyMap ELSE @]
      [] e.ev = "NextSvc" /\ "state" \in DOMAIN e /\ e.state \in {"Connected", "PendingDisconnect"} /\ Deadlines(m) # {} ->
             LET d == MinOfSet(Deadlines(m)) IN
             IF e.at = -1 \/ (e.at > d /\ e.at > e.t) THEN [Breach(m, e, "timer-ignored") EXCEPT !.skip = FALSE] ELSE m
      [] OTHER -> m

Apply(m0, e) ==
    IF e.ev = "Cfg" THEN [Init0 EXCEPT !.run = e.run, !.errs = m0.errs, !.faithful = (e.faithful = 1)]
    ELSE IF m0.skip THEN m0
    ELSE LET m == Timers(m0, e) IN
    IF ~m.faithful THEN m
    ELSE CASE e.ev = "PumpLimit" -> Breach(m, e, "spin")
           [] e.ev = "Quiesce" ->
                  IF e.open = 1 /\ e.responsive = 1 /\ e.state = "PendingConnack" THEN Breach(m, e, "stranded")
                  ELSE [m EXCEPT !.atQuiesce = (e.open = 1 /\ e.responsive = 1 /\ e.state = "Connected"), !.qstate = e.state]
           [] e.ev = "Snapshot" /\ m.atQuiesce ->
                  IF e.unresolved # 0 THEN Breach(m, e, "stranded") ELSE [m EXCEPT !.atQuiesce = FALSE]
           [] e.ev = "Service" ->
                  IF e.out = 0 /\ e.result = "ok" /\ e.t = m.lastT /\ e.state = m.lastState
                  THEN (IF m.idle + 1 >= 4 THEN Breach(m, e, "spin") ELSE [m EXCEPT !.idle = @ + 1, !.atQuiesce = FALSE])
                  ELSE [m EXCEPT !.idle = 0, !.lastT = e.t, !.lastState = e.state, !.atQuiesce = FALSE]
           [] e.ev \in {"Complete", "Tx", "Rx", "Submit", "WriteDone", "Open", "Close", "Reset"} -> [m EXCEPT !.idle = 0, !.atQuiesce = FALSE, !.lastT = -1]
           [] OTHER -> m
=============================================================================
