------------------------------- MODULE MonC02 -------------------------------
(* C02 - outbound packets are spec-conformant and carry exactly what the user supplied.

   Engine runs: every packet the engine emits (Tx) is decodable by the independent reference decoder
   and carries what the application submitted.
   Codec runs: one Enc event per case of the enumeration TLC made from Codec.tla (every client packet
   kind, flag combination, property subset, boundary length).  The case was built through the public
   builders and encoded by the crate's resumable encoder under many buffer-capacity sequences:
     outputs    number of distinct byte strings the capacity sequences produced (must be one)
     decodable  the reference decoder (itself checked against Codec.tla's bytes) accepts the bytes
     matched    ... and recovers exactly the abstract content of the case
     error / panics   the encoder refused the packet / panicked
     class      "legal", or the rule of the specification the case breaks although the public API can express it
     validated  the validation run by the public submit / stop entry points accepted the packet *)
EXTENDS MonBase

Init0 == [run |-> 0, skip |-> FALSE, errs |-> <<>>,
          ops |-> EmptyMap]      \* op -> [kind, qos, retain, entries, hash]

Apply(m, e) ==
    IF e.ev = "Cfg" THEN [Init0 EXCEPT !.run = e.run, !.errs = m.errs]
    ELSE IF m.skip THEN m
    ELSE CASE e.ev = "Submit" -> [m EXCEPT !.ops = Put(@, e.op, [kind |-> e.kind, qos |-> e.qos, retain |-> e.retain, entries |-> e.entries, hash |-> e.hash])]
           [] e.ev = "Tx" /\ e.partial = 0 /\ e.type = "UNDECODABLE" -> Breach(m, e, "not-decodable")
           [] e.ev = "Tx" /\ e.partial = 0 /\ e.op # 0 /\ Has(m.ops, e.op) /\ e.type \in {"PUBLISH", "SUBSCRIBE", "UNSUBSCRIBE"} ->
                  LET o == m.ops[e.op]
                      kindOk == (e.type = "PUBLISH" /\ o.kind = "pub") \/ (e.type = "SUBSCRIBE" /\ o.kind = "sub") \/ (e.type = "UNSUBSCRIBE" /\ o.kind = "unsub")
                  IN IF ~kindOk THEN Breach(m, e, "content-mismatch")
                     ELSE IF e.type = "PUBLISH" /\ (e.qos # o.qos \/ e.retain # o.retain) THEN Breach(m, e, "content-mismatch")
                     ELSE IF e.type # "PUBLISH" /\ e.n # o.entries THEN Breach(m, e, "content-mismatch")
                     ELSE IF o.hash # 0 /\ e.hash # o.hash THEN Breach(m, e, "content-mismatch")
                     ELSE m
           [] e.ev = "Enc" /\ e.class # "legal" ->
                  \* a packet the specification forbids (class from Codec.tla) that the public API can express: if submission-time
                  \* validation lets it through and the encoder produces it, the client emits a malformed packet
                  IF e.panics > 0 THEN [Breach(m, e, "panic") EXCEPT !.skip = FALSE]
                  ELSE IF e.validated = 1 /\ e.outputs >= 1 THEN [Breach(m, e, "malformed-emitted") EXCEPT !.skip = FALSE]
                  ELSE m
           [] e.ev = "Enc" ->
                  IF e.panics > 0 THEN [Breach(m, e, "panic") EXCEPT !.skip = FALSE]
                  ELSE IF e.outputs = 0 THEN [Breach(m, e, "not-encodable") EXCEPT !.skip = FALSE]
                  ELSE IF e.outputs > 1 THEN [Breach(m, e, "fragmentation") EXCEPT !.skip = FALSE]
                  ELSE IF e.decodable = 0 THEN [Breach(m, e, "not-decodable") EXCEPT !.skip = FALSE]
                  ELSE IF e.matched = 0 THEN [Breach(m, e, "content-mismatch") EXCEPT !.skip = FALSE]
                  ELSE m
           [] OTHER -> m
=============================================================================
