---------------------------- MODULE EncoderSteps ----------------------------
(***************************************************************************************************
 Implementation-shaped specification of the resumable encoder (gneiss-mqtt/src/encode.rs:
 Encoder::encode, process_encoding_step, process_byte_slice_encoding, is_empty_encoding_step).

 A packet is a queue of encoding steps: integers of 1 - 4 bytes (written whole) and byte slices
 (written as far as the buffer has room, the rest re-queued with an offset).  One call to encode
 gets a buffer with some bytes already in it and a capacity; it runs steps while at least four
 bytes are free, then drops steps that have nothing left to emit, and reports Complete or Full.
 Bytes are identities: the packet's bytes are 1..Total in order, so "the emitted byte stream does
 not depend on how the buffer space offered to the encoder is sized or fragmented" (C02) is
 literally: whatever the sequence of (prefill, capacity) pairs, the concatenation of what the calls
 append is 1..Total, and Complete is reported exactly by the call that appends the last byte (or,
 for trailing empty fields, by that same call - the lost-completion defect of the pinned tree).

 Defects:
   "empty-tail-not-finished"  (pinned tree, repaired) a call that has emitted every byte but leaves steps for
                              empty fields behind reports Full; the packet completes in a later call that appends nothing
   "slice-restarts"           (hypothetical) a re-queued slice restarts at offset 0
 ***************************************************************************************************)
EXTENDS Naturals, Sequences, FiniteSets, TLC, Json

CONSTANTS Packets,      \* packets: sequences of steps [k |-> "int", n |-> 1..4] | [k |-> "slice", n |-> length]
          Caps,         \* buffer capacities (>= 4)
          Defects

VARIABLES steps,        \* remaining steps: [k, n, off, first] (first: identity of the step's first byte)
          total,        \* number of bytes of the packet
          out,          \* bytes appended so far, over all calls
          done,         \* "no" | "Complete" reported
          calls,        \* number of encode calls made
          hist          \* (prefill, capacity) of each call (observation)

vars == <<steps, total, out, done, calls, hist>>

RECURSIVE Number(_, _)
Number(p, next) == IF p = <<>> THEN <<>> ELSE <<[k |-> Head(p).k, n |-> Head(p).n, off |-> 0, first |-> next]>> \o Number(Tail(p), next + Head(p).n)
RECURSIVE Size(_)
Size(p) == IF p = <<>> THEN 0 ELSE Head(p).n + Size(Tail(p))

Init == \E p \in Packets :
           /\ steps = Number(p, 1) /\ total = Size(p) /\ out = <<>> /\ done = "no" /\ calls = 0 /\ hist = <<>>

Ids(a, n) == [i \in 1..n |-> a + i - 1]
Min2(a, b) == IF a <= b THEN a ELSE b

\* the loop of Encoder::encode over a buffer with `len` bytes in it: returns [steps, emitted]
RECURSIVE Run(_, _, _, _)
Run(st, len, cap, emitted) ==
    IF st = <<>> \/ len + 4 > cap THEN [steps |-> st, emitted |-> emitted]
    ELSE LET s == Head(st) IN
         IF s.k = "int" THEN Run(Tail(st), len + s.n, cap, emitted \o Ids(s.first, s.n))
         ELSE LET room == cap - len
                  left == s.n - s.off
                  m == Min2(room, left)
                  start == IF "slice-restarts" \in Defects THEN s.first ELSE s.first + s.off
                  rest == IF m < left THEN <<[s EXCEPT !.off = s.off + m]>> ELSE <<>>
              IN Run(rest \o Tail(st), len + m, cap, emitted \o Ids(start, m))

\* steps for empty fields emit nothing: finished at once
RECURSIVE DropEmpty(_)
DropEmpty(st) == IF st # <<>> /\ Head(st).k = "slice" /\ Head(st).n <= Head(st).off THEN DropEmpty(Tail(st)) ELSE st

Encode ==
    /\ done = "no"
    /\ \E cap \in Caps : \E prefill \in 0..(cap - 4) :
          LET r == Run(steps, prefill, cap, <<>>)
              st2 == IF "empty-tail-not-finished" \in Defects THEN r.steps ELSE DropEmpty(r.steps)
          IN /\ steps' = st2
             /\ out' = out \o r.emitted
             /\ done' = IF st2 = <<>> THEN "Complete" ELSE "no"
             /\ hist' = Append(hist, <<prefill, cap>>)
    /\ calls' = calls + 1
    /\ UNCHANGED total

Next == Encode
Spec == Init /\ [][Next]_vars
View == <<steps, total, out, done>>

\* C02: one byte string, whatever the capacities
Prefix == out = Ids(1, Len(out))
Whole == done = "Complete" => out = Ids(1, total)
\* completion is reported by the call that appends the last byte, not by a later call that appends nothing
Prompt == (Len(out) = total /\ calls > 0) => done = "Complete"
\* every call makes progress (a buffer with four free bytes always takes something), so encoding terminates
Progress == calls <= total + 1

Export == (done = "Complete") => PrintT(<<"CAPS", ToJson([total |-> total, caps |-> hist])>>)

\* alphabets
I(n) == [k |-> "int", n |-> n]
Sl(n) == [k |-> "slice", n |-> n]
Packets_Small == {<<I(1), I(1), I(2), Sl(3), I(1), Sl(0)>>,            \* PUBLISH-like: header, length, topic length, topic, property length, empty payload
                  <<I(1), I(2), I(2), Sl(5), Sl(0), Sl(0)>>,           \* trailing empty fields
                  <<I(1), I(1), Sl(9), I(4), Sl(2), I(2), Sl(6)>>,     \* slices longer than the smallest buffer
                  <<I(1), I(1)>>}                                      \* PINGREQ-like
=============================================================================
