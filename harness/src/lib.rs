pub mod refcodec;
pub mod trace;
pub mod sim;
pub mod gen;
pub mod regress;
