------------------------------ MODULE Backoff ------------------------------
(***************************************************************************************************
 Implementation-shaped specification of the reconnect back-off of MqttClientImpl
 (gneiss-mqtt/src/client/mod.rs: new, advance_reconnect_period, clamp_reconnect_period,
 compute_uniform_jitter_period, the reset rule in transition_to_state; client/config.rs:
 ReconnectOptions::normalize), composed with an environment that makes attempts fail or succeed
 and lets established connections live for chosen times, and with the property monitor MonC19 -
 the same operator that judges the event streams recorded from the real tokio client.

 Time is in microseconds.  `DurMax` stands for Duration::MAX; arithmetic that would exceed it is
 the overflow the code has to avoid.

 Defects (found in the pinned tree, repaired by a "fix:" commit; switched back on to show TLC finds them):
   "initial-period-before-normalize"  next_reconnect_period is initialised from the user's base period
                                      before base/max are normalised (base 10 s, max 2 s waits 10, 10, 10 s)
   "zero-range-jitter"                uniform jitter draws from the empty range 0..0 when the period is 0 (panic)
   "unchecked-doubling"               period * 2 overflows Duration for periods above half of Duration::MAX (panic)
 and one that a seeded change introduced (kept as a switch so that the model can show it):
   "stale-success-time"               successful_connect_time is not cleared when a connection ends, so a later attempt
                                      that gets a transport but no successful CONNACK is measured against the old time
 ***************************************************************************************************)
EXTENDS Naturals, Integers, Sequences, FiniteSets, TLC, Json

CONSTANTS CfgSet,       \* configurations: [baseUs, maxUs, stableUs, jitter]
          Lifetimes,    \* how long an established connection may live (us)
          MaxHist,      \* attempts per behaviour
          DurMax,       \* Duration::MAX
          WaitLimit,    \* waits longer than this are not sat out (the behaviour ends there)
          Defects,
          ExportOn

VARIABLES cfg, opt,     \* as supplied / reconnect_options after normalize()
          next,         \* next_reconnect_period
          succT,        \* successful_connect_time (-1 = None)
          now, phase,   \* "attempting" | "up" | "waiting" | "dead"
          wakeAt, mon, hist

vars == <<cfg, opt, next, succT, now, phase, wakeAt, mon, hist>>
View == <<cfg, opt, next, succT, now, phase, wakeAt, mon, Len(hist)>>

C19 == INSTANCE MonC19
Second == 1000000

Min2(a, b) == IF a <= b THEN a ELSE b

\* ReconnectOptions::normalize
Normalize(c) ==
    LET lo == IF c.baseUs > c.maxUs THEN c.maxUs ELSE c.baseUs
        hi == IF c.baseUs > c.maxUs THEN c.baseUs ELSE c.maxUs
    IN [baseUs |-> lo, maxUs |-> IF hi < Second THEN Second ELSE hi, stableUs |-> c.stableUs, jitter |-> c.jitter]

ClientEv(kind, t) == [ev |-> "ClientEv", run |-> 1, seq |-> 0, kind |-> kind, tus |-> t, rus |-> t]
CfgEv(c) == [ev |-> "Cfg", run |-> 1, seq |-> 0, baseUs |-> c.baseUs, maxUs |-> c.maxUs, stableUs |-> c.stableUs, jitter |-> c.jitter, slackUs |-> 0, lifeSlackUs |-> 0]
EndEv(alive) == [ev |-> "End", run |-> 1, seq |-> 0, loopAlive |-> IF alive THEN 1 ELSE 0, closed |-> 0]

Init ==
    \E c \in CfgSet :
        /\ cfg = c
        /\ opt = Normalize(c)
        /\ next = IF "initial-period-before-normalize" \in Defects THEN c.baseUs ELSE Normalize(c).baseUs
        /\ succT = -1 /\ now = 0 /\ phase = "attempting" /\ wakeAt = -1
        /\ mon = C19!Apply(C19!Apply(C19!Init0, CfgEv(c)), ClientEv("Attempt", 0))
        /\ hist = <<>>

\* advance_reconnect_period: the possible [wait, next', panic]
Advances(period) ==
    LET overflow == period > DurMax - period
        doubled == IF overflow THEN DurMax ELSE 2 * period
        nxt == Min2(doubled, opt.maxUs)                            \* clamp_reconnect_period
        panicD == overflow /\ "unchecked-doubling" \in Defects
    IN IF panicD THEN {[wait |-> 0, next |-> period, panic |-> TRUE]}
       ELSE IF opt.jitter = "none" THEN {[wait |-> period, next |-> nxt, panic |-> FALSE]}
       ELSE IF period = 0 THEN {[wait |-> 0, next |-> nxt, panic |-> "zero-range-jitter" \in Defects]}
       ELSE {[wait |-> w, next |-> nxt, panic |-> FALSE] : w \in {0, period \div 2, period - 1}}   \* gen_range(0..period)

EnterPendingReconnect(period, evs, t, decision) ==
    \E a \in Advances(period) :
        /\ next' = a.next
        /\ phase' = IF a.panic THEN "dead" ELSE "waiting"
        /\ wakeAt' = IF a.panic THEN -1 ELSE t + a.wait
        /\ mon' = LET m1 == C19!Apply(mon, evs) IN IF a.panic THEN C19!Apply(m1, EndEv(FALSE)) ELSE m1
        /\ hist' = Append(hist, decision @@ [wait |-> a.wait, cap |-> period, panic |-> a.panic])

AttemptFails ==
    /\ phase = "attempting" /\ Len(hist) < MaxHist
    /\ EnterPendingReconnect(next, ClientEv("Failure", now), now, [a |-> "Fail"])
    /\ UNCHANGED <<cfg, opt, succT, now>>

AttemptSucceeds ==
    /\ phase = "attempting" /\ Len(hist) < MaxHist
    /\ phase' = "up" /\ succT' = now
    /\ mon' = C19!Apply(mon, ClientEv("Success", now))
    /\ UNCHANGED <<cfg, opt, next, now, wakeAt, hist>>

\* transition_to_state(Connected -> PendingReconnect): the reset rule, then the wait
ResetRule(t) == IF succT # -1 /\ (t - succT) > opt.stableUs THEN opt.baseUs ELSE next
Cleared == IF "stale-success-time" \in Defects THEN succT ELSE -1

ConnectionLost ==
    /\ phase = "up"
    /\ \E life \in Lifetimes :
          LET t == now + life
          IN /\ now' = t /\ succT' = Cleared
             /\ EnterPendingReconnect(ResetRule(t), ClientEv("Disconnection", t), t, [a |-> "Ok", lifeUs |-> life])
    /\ UNCHANGED <<cfg, opt>>

\* the transport connects (the client is in its Connected state) but the handshake fails after some time: a failing
\* CONNACK, or the connection ends before any CONNACK.  No success was recorded, so the reset rule must not fire.
AttemptRejected ==
    /\ phase = "attempting" /\ Len(hist) < MaxHist
    /\ \E delay \in Lifetimes, how \in {"Reject", "Eof"} :
          LET t == now + delay
          IN /\ now' = t /\ succT' = Cleared
             /\ EnterPendingReconnect(ResetRule(t), ClientEv("Failure", t), t, [a |-> how, lifeUs |-> delay])
    /\ UNCHANGED <<cfg, opt>>

WaitOver ==
    /\ phase = "waiting" /\ wakeAt - now <= WaitLimit
    /\ now' = wakeAt /\ phase' = "attempting" /\ wakeAt' = -1
    /\ mon' = C19!Apply(mon, ClientEv("Attempt", wakeAt))
    /\ UNCHANGED <<cfg, opt, next, succT, hist>>

Next == AttemptFails \/ AttemptRejected \/ AttemptSucceeds \/ ConnectionLost \/ WaitOver
Spec == Init /\ [][Next]_vars

----------------------------------------------------------------------------------------------------
Guard(name, ok) == ok \/ (PrintT(<<"CEX", name, ToJson([cfg |-> cfg, hist |-> hist, errs |-> mon.errs])>>) /\ FALSE)

\* the property, as the monitor states it
MonitorQuiet == Guard("MonitorQuiet", mon.errs = <<>>)
\* computing the wait never fails
NeverDies == Guard("NeverDies", phase # "dead")
\* stated directly as well: a wait never exceeds the effective maximum
WaitWithinMaximum == Guard("WaitWithinMaximum", phase = "waiting" => wakeAt - now <= C19!EffMax(CfgEv(cfg)))

\* script export: one line per complete behaviour
Export == (ExportOn /\ Len(hist) = MaxHist /\ phase \in {"waiting", "dead"}) => PrintT(<<"SCRIPT", ToJson([cfg |-> cfg, hist |-> hist])>>)

----------------------------------------------------------------------------------------------------
\* named alphabets for the bounded instances (substituted for CfgSet / Lifetimes in the TLC configuration)
Cfg_All == {[baseUs |-> b, maxUs |-> m, stableUs |-> st, jitter |-> j] :
               b \in {0, 500, 1000000, 3000000, 10000000, 600000000}, m \in {0, 500000, 2000000, 8000000, 1000000000},
               st \in {0, 2000000}, j \in {"none", "uniform"}}
Cfg_Small == {[baseUs |-> b, maxUs |-> m, stableUs |-> 2000000, jitter |-> j] :
               b \in {0, 1000000, 10000000}, m \in {500000, 2000000, 8000000}, j \in {"none", "uniform"}}
Life_All == {1000, 2000000, 2001000}
=============================================================================
