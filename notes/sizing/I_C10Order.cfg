SPECIFICATION Spec
CONSTANTS MaxOps = 2  MaxConns = 3  PidMax = 3  Budgets = {1, 2, 4}
INVARIANT C10Order
CHECK_DEADLOCK FALSE
