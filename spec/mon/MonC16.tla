------------------------------- MODULE MonC16 -------------------------------
(* C16 - nothing that breaks the server's announced limits or the static packet rules is sent,
   and nothing that satisfies them is rejected by validation.  In engine runs a submitted
   operation names its deviation, if any, in `variant`; the complete input-space enumeration is
   the job of Validation.tla.  The timing clause (static rules at submission) has its own rule. *)
EXTENDS MonBase

StaticInvalid == {"badfilter", "emptytopic", "wildtopic", "bigprop", "nolocalshared"}

Init0 == [run |-> 0, skip |-> FALSE, errs |-> <<>>,
          ver |-> 5,
          ops |-> EmptyMap,      \* op -> [kind, qos, retain, variant, len]
          s |-> [known |-> FALSE]]   \* settings of the current connection

Allowed(m, o) ==
    /\ o.variant \notin StaticInvalid
    /\ (m.s.known => /\ (o.kind = "pub" => o.qos <= m.s.mqos /\ (o.retain = 1 => m.s.ret = 1))
                     /\ (o.variant = "wild" => m.s.wild = 1)
                     /\ (o.variant = "shared" => m.s.shared = 1)
                     /\ (o.variant = "sharedwild" => m.s.shared = 1 /\ m.s.wild = 1)
                     /\ (o.variant = "subid" => m.s.subid = 1))

\* size-related rejections are judged only when the packet fits whatever the encoding: the limit is far away, or - for a
\* PUBLISH carrying nothing but topic and payload - even its largest encoding (four length bytes, topic AND alias property) fits
SizeIrrelevant(m, o) == \/ ~m.s.known
                        \/ m.s.mps >= o.len + 4000
                        \/ (o.kind = "pub" /\ o.variant = "" /\ o.len + Len(o.topic) + 13 <= m.s.mps)

Apply(m, e) ==
    IF e.ev = "Cfg" THEN [Init0 EXCEPT !.run = e.run, !.errs = m.errs, !.ver = e.ver]
    ELSE IF m.skip THEN m
    ELSE CASE e.ev = "Flt" ->
                  \* one string of the enumeration of Validation.tla put to the crate's topic-name and topic-filter validators
                  LET B(rule) == [Breach(m, e, rule) EXCEPT !.skip = FALSE] IN
                  \* forbidden by the specification's grammar, let through by validation: it would be sent
                  IF (e.specValid = 0 /\ e.codeValid = 1) \/ (e.specTopic = 0 /\ e.codeTopic = 1) THEN B("invalid-sent")
                  ELSE IF (e.specValid = 1 /\ e.codeValid = 0) \/ (e.specTopic = 1 /\ e.codeTopic = 0) THEN B("valid-rejected")
                  \* a shared / wildcard filter not recognised as one escapes the check against the server's announced capabilities
                  ELSE IF e.specValid = 1 /\ ((e.specShared = 1 /\ e.codeShared = 0) \/ (e.specWild = 1 /\ e.codeWild = 0)) THEN B("invalid-sent")
                  ELSE IF e.specValid = 1 /\ ((e.specShared = 0 /\ e.codeShared = 1) \/ (e.specWild = 0 /\ e.codeWild = 1)) THEN B("valid-rejected")
                  ELSE m
           [] e.ev = "Submit" ->
                  LET m2 == [m EXCEPT !.ops = Put(@, e.op, [kind |-> e.kind, qos |-> e.qos, retain |-> e.retain, variant |-> e.variant, len |-> e.len, topic |-> e.topic])]
                  IN IF e.variant \in StaticInvalid THEN [Breach(m2, e, "timing") EXCEPT !.skip = FALSE] ELSE m2
           [] e.ev = "Reject" -> IF e.variant \notin StaticInvalid THEN Breach(m, e, "valid-rejected") ELSE m
           [] e.ev = "Settings" -> [m EXCEPT !.s = [known |-> TRUE, mqos |-> e.mqos, ret |-> e.ret, wild |-> e.wild, shared |-> e.shared, subid |-> e.subid, mps |-> e.mps]]
           [] e.ev \in {"Open", "Close", "Reset"} -> [m EXCEPT !.s = [known |-> FALSE]]
           [] e.ev = "Tx" /\ e.partial = 0 /\ e.op # 0 /\ Has(m.ops, e.op) /\ e.type \in {"PUBLISH", "SUBSCRIBE", "UNSUBSCRIBE"} ->
                  IF ~Allowed(m, m.ops[e.op]) \/ (m.s.known /\ e.size > m.s.mps) THEN Breach(m, e, "invalid-sent") ELSE m
           [] e.ev = "Complete" /\ e.ok = 1 /\ Has(m.ops, e.op) /\ m.ops[e.op].variant \in StaticInvalid -> Breach(m, e, "invalid-sent")
           [] e.ev = "Complete" /\ e.err = "PacketValidationFailure" /\ Has(m.ops, e.op) ->
                  IF Allowed(m, m.ops[e.op]) /\ SizeIrrelevant(m, m.ops[e.op]) /\ m.s.known THEN Breach(m, e, "valid-rejected") ELSE m
           [] OTHER -> m
=============================================================================
