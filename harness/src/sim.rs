//! Scenario runner for the protocol engine: executes the environment's half of a script against
//! the real `ProtocolState` (through the crate's `verif` facade), with a reference broker that
//! resolves abstract decisions against what the engine really sent, and records every
//! observable event as ndjson.  It does not judge: verdicts come from the TLA+ monitors.

use crate::refcodec as rc;
use crate::refcodec::{Packet, V};
use crate::trace::{clamp31, Trace};
use gneiss_mqtt::alias::OutboundAliasResolverFactory;
use gneiss_mqtt::client::config::*;
use gneiss_mqtt::error::{GneissError, GneissResult};
use gneiss_mqtt::mqtt::*;
use gneiss_mqtt::verif::engine::*;
use gneiss_mqtt::verif::{Flat, Val};
use rand::rngs::StdRng;
use rand::{Rng, SeedableRng};
use serde::{Deserialize, Serialize};
use serde_json::{json, Value};
use std::collections::BTreeMap;
use std::panic::{catch_unwind, AssertUnwindSafe};

fn d_m1() -> i64 { -1 }
fn d_cap() -> usize { 4096 }
fn d_t1() -> String { "t1".to_string() }
fn d_one() -> usize { 1 }
fn d_pingtmo() -> u64 { 10000 }
fn d_ver() -> u32 { 5 }
fn d_policy() -> String { "All".into() }
fn d_none() -> String { "None".into() }
fn d_post() -> String { "PostSuccess".into() }
fn d_null() -> String { "null".into() }
fn d_cid() -> String { "c".into() }
fn d_deadline() -> u64 { 30000 }
fn d_normal() -> String { "normal".into() }
fn d_oldest() -> String { "oldest".into() }

#[derive(Clone, Debug, Serialize, Deserialize)]
pub struct RunCfg {
    #[serde(default)] pub src: String,
    #[serde(default = "d_policy")] pub policy: String,
    #[serde(default = "d_none")] pub drain: String,
    #[serde(default = "d_m1")] pub retries: i64,
    #[serde(default = "d_ver")] pub ver: u32,
    #[serde(default = "d_pingtmo")] pub ping_tmo: u64,
    #[serde(default = "d_m1")] pub ka: i64,
    #[serde(default = "d_post")] pub rejoin: String,
    #[serde(default = "d_null")] pub resolver: String,
    #[serde(default = "d_cid")] pub cid: String,
    #[serde(default = "d_m1")] pub tam_in: i64,
    #[serde(default = "d_m1")] pub sei: i64,
    #[serde(default = "d_m1")] pub rm_in: i64,
    #[serde(default = "d_m1")] pub mps_in: i64,
    /// bit mask of further connect options: 1 username, 2 password, 4 will, 8 user properties,
    /// 16 request response information, 32 request problem information, 64 will delay
    #[serde(default)] pub copt: u32,
    #[serde(default)] pub faithful: bool,
    #[serde(default = "d_cap")] pub cap: usize,
    /// delay (ms) of the automatic broker's answers in faithful runs
    #[serde(default)] pub ack_delay: u64,
    /// CONNACK values of the automatic broker (-1 = property absent)
    #[serde(default = "d_m1")] pub b_rm: i64,
    #[serde(default = "d_m1")] pub b_ka: i64,
    #[serde(default = "d_m1")] pub b_tam: i64,
    #[serde(default = "d_m1")] pub b_mqos: i64,
    #[serde(default = "d_m1")] pub b_ret: i64,
}

impl Default for RunCfg {
    fn default() -> Self { serde_json::from_str("{}").unwrap() }
}

#[derive(Clone, Debug, Serialize, Deserialize)]
#[serde(tag = "a")]
pub enum Step {
    Submit {
        kind: String,
        #[serde(default)] qos: u8,
        #[serde(default = "d_t1")] topic: String,
        #[serde(default = "d_m1")] tmo: i64,
        #[serde(default)] retain: bool,
        #[serde(default)] size: usize,
        #[serde(default)] alias: u16,
        #[serde(default = "d_one")] entries: usize,
        /// "" or a named deviation: "wild", "shared", "subid", "badfilter", "bigprop", "emptytopic", "nolocalshared"
        #[serde(default)] variant: String,
    },
    Disconnect {},
    Open { #[serde(default = "d_deadline")] deadline: u64 },
    Close {},
    Reset {},
    Service { #[serde(default = "d_cap")] cap: usize },
    WriteDone {},
    /// write completion if the driver has unflushed bytes, otherwise nothing (a well-behaved driver)
    Flush {},
    /// service / write-completion cycles until the engine produces nothing more
    Drain { #[serde(default = "d_cap")] cap: usize },
    Connack {
        #[serde(default)] sp: bool,
        #[serde(default = "d_m1")] rm: i64,
        #[serde(default = "d_m1")] ka: i64,
        #[serde(default = "d_m1")] tam: i64,
        #[serde(default = "d_m1")] mqos: i64,
        #[serde(default)] rc: u8,
        #[serde(default = "d_m1")] ret: i64,
        #[serde(default = "d_m1")] wild: i64,
        #[serde(default = "d_m1")] subid: i64,
        #[serde(default = "d_m1")] shared: i64,
        #[serde(default = "d_m1")] mps: i64,
        #[serde(default)] acid: String,
    },
    /// answer something the engine sent: which = oldest | newest | <index>; as = normal | fail |
    /// wrongtype | unknownid | dup | wrongcount
    Ack { #[serde(default = "d_oldest")] which: String, #[serde(default = "d_normal", rename = "as")] how: String },
    InPub {
        #[serde(default)] qos: u8,
        /// packet id; -1 = fresh, -2 = repeat the most recent one of that qos
        #[serde(default = "d_m1")] pid: i64,
        #[serde(default)] dup: bool,
        /// none | bind | reuse | unknown | zero | range
        #[serde(default = "d_none_l")] alias: String,
        #[serde(default = "d_t1")] topic: String,
    },
    /// PUBREL from the server; pid -1 = oldest id the client has answered with PUBREC, -3 = unknown id
    InPubrel { #[serde(default = "d_m1")] pid: i64 },
    Pingresp {},
    ServerDisconnect {},
    Auth {},
    Garbage { #[serde(default = "d_one")] n: usize },
    Raw { hex: String, #[serde(default)] legal: bool, #[serde(default)] name: String },
    Advance { ms: u64 },
    /// move the clock to the engine's reported next service time plus `plus` ms (no-op if never)
    TickToNext { #[serde(default)] plus: i64 },
    NextSvc {},
    /// faithful driver loop for `ms` of virtual time with the automatic conforming broker
    Run { ms: u64 },
    /// faithful driver loop until nothing is due, then Quiesce marker and Snapshot
    Quiesce {},
    Snapshot {},
    /// (instrument) place the packet-id allocator's cursor: any cursor position is reachable by running enough operations,
    /// so identifier wrap-around next to live identifiers can be scripted instead of pushing 65535 operations through
    Cursor { v: u16 },
    /// bring the run to a good end whatever state a script left it in: close a dead connection, open one if
    /// there is none, then let the faithful driver and the conforming broker finish everything (Quiesce)
    Settle {},
}

fn d_none_l() -> String { "none".into() }

#[derive(Clone, Debug, Serialize, Deserialize)]
pub struct Script {
    #[serde(default)] pub cfg: RunCfg,
    pub steps: Vec<Step>,
}

pub fn err_kind(e: &GneissError) -> &'static str {
    match e {
        GneissError::Unimplemented(_) => "Unimplemented",
        GneissError::OperationChannelFailure(_) => "OperationChannelFailure",
        GneissError::EncodingFailure(_) => "EncodingFailure",
        GneissError::DecodingFailure(_) => "DecodingFailure",
        GneissError::ProtocolError(_) => "ProtocolError",
        GneissError::InvalidInboundTopicAlias(_) => "InvalidInboundTopicAlias",
        GneissError::InternalStateError(_) => "InternalStateError",
        GneissError::ConnectionClosed(_) => "ConnectionClosed",
        GneissError::OfflineQueuePolicyFailed(_) => "OfflineQueuePolicyFailed",
        GneissError::AckTimeout(_) => "AckTimeout",
        GneissError::ClientClosed(_) => "ClientClosed",
        GneissError::UserInitiatedDisconnect(_) => "UserInitiatedDisconnect",
        GneissError::ConnectionEstablishmentFailure(_) => "ConnectionEstablishmentFailure",
        GneissError::StdIoError(_) => "StdIoError",
        GneissError::TlsError(_) => "TlsError",
        GneissError::TransportError(_) => "TransportError",
        GneissError::PacketValidationFailure(_) => "PacketValidationFailure",
        GneissError::OtherError(_) => "OtherError",
        GneissError::MaxInterruptedRetriesExceeded(_) => "MaxInterruptedRetriesExceeded",
        _ => "Unknown",
    }
}

fn res_str(r: &GneissResult<()>) -> &'static str { match r { Ok(()) => "ok", Err(e) => err_kind(e) } }

pub fn val_to_v(v: &Val) -> V {
    match v {
        Val::None => V::None,
        Val::U(x) => V::U(*x),
        Val::Flag(b) => V::Flag(*b),
        Val::S(s) => V::S(s.clone()),
        Val::Bytes(b) => V::Bytes(b.clone()),
        Val::List(l) => V::List(l.iter().map(val_to_v).collect()),
        Val::Pair(a, b) => V::Pair(a.clone(), b.clone()),
    }
}

pub fn flat_to_packet(ptype: u8, flat: &Flat) -> Packet {
    let mut p = Packet::new(ptype);
    for (k, v) in flat { p.f.insert(k.to_string(), val_to_v(v)); }
    p
}

/// When set, a full projection of the engine state ("St" event) is recorded after every entry
/// point call, and entry-point events carry what EngineTrace.tla needs to replay them.
pub static STATE_EVENTS: std::sync::atomic::AtomicBool = std::sync::atomic::AtomicBool::new(false);

#[derive(Clone, Debug)]
struct OpInfo {
    eid: u64,
    kind: String,
    qos: u8,
    entries: usize,
    resolved: bool,
}

#[derive(Clone, Debug)]
struct Owed {
    kind: u8, // packet type of the normal answer
    pid: u16,
    n: usize, // reason codes the normal answer carries
    due: u64,
    answered: bool,
    /// wire offset just past the packet that created this debt: the broker cannot answer before it has those bytes
    end_off: usize,
}

/// What the reference broker knows about the current session / connection
#[derive(Default)]
struct Broker {
    conn: u64,
    open: bool,
    connect_seen: bool,
    connect_clean: bool,
    connack_sent: bool,
    has_session: bool,
    owed: Vec<Owed>,
    /// server -> client publish bookkeeping
    next_srv_pid: u16,
    last_srv_pid: [u16; 3],
    /// ids the client has answered with PUBREC and that we have not released yet
    pubrec_seen: Vec<u16>,
    srv_alias_bound: Vec<u16>,
    tam_in: i64,
    all_legal: bool,
    /// undecodable bytes were accepted (buffered) by the engine on this connection: the stream is no longer aligned with packets
    misaligned: bool,
    connect_flushed: bool,
}

pub struct Sim<'a> {
    cfg: RunCfg,
    engine: Engine,
    tr: &'a mut Trace,
    t: u64,
    buf: Vec<u8>,
    wire: Vec<u8>,
    wire_parsed: usize,
    call_marks: Vec<(usize, u64)>, // (wire length after the service call, time of the call)
    tx_end: usize,
    sock_upto: usize,              // wire bytes the (faithful) driver has handed to the socket so far
    b: Broker,
    ops: BTreeMap<u64, OpInfo>,
    next_key: u64,
    dead: bool,
    rng: StdRng,
    v5: bool,
    auto: AutoBroker,
    pub panics: u64,
    pub steps_skipped: u64,
    pub pump_limit_hits: u64,
}

fn policy_of(s: &str) -> OfflineQueuePolicy {
    match s { "All" => OfflineQueuePolicy::PreserveAll, "Ack" => OfflineQueuePolicy::PreserveAcknowledged, "Q1" => OfflineQueuePolicy::PreserveQos1PlusPublishes, _ => OfflineQueuePolicy::PreserveNothing }
}

pub fn build_connect_options(cfg: &RunCfg) -> ConnectOptions {
    let mut b = ConnectOptions::builder();
    b.with_keep_alive_interval_seconds(if cfg.ka < 0 { None } else { Some(cfg.ka as u16) });
    b.with_rejoin_session_policy(match cfg.rejoin.as_str() { "Always" => RejoinSessionPolicy::Always, "Never" => RejoinSessionPolicy::Never, _ => RejoinSessionPolicy::PostSuccess });
    if !cfg.cid.is_empty() { b.with_client_id(&cfg.cid); }
    if cfg.tam_in >= 0 { b.with_topic_alias_maximum(cfg.tam_in as u16); }
    if cfg.sei >= 0 { b.with_session_expiry_interval_seconds(cfg.sei as u32); }
    if cfg.rm_in >= 0 { b.with_receive_maximum(cfg.rm_in as u16); }
    if cfg.mps_in >= 0 { b.with_maximum_packet_size_bytes(cfg.mps_in as u32); }
    if cfg.copt & 1 != 0 { b.with_username("user\u{e9}"); }
    if cfg.copt & 2 != 0 { b.with_password(&[0u8, 1, 2, 255]); }
    if cfg.copt & 4 != 0 {
        b.with_will(PublishPacket::builder("will/topic".to_string(), QualityOfService::AtLeastOnce).with_payload(vec![9u8, 8, 7]).with_retain(true)
            .with_content_type("ct".to_string()).with_user_property(UserProperty::new("wk".to_string(), "wv".to_string())).build());
    }
    if cfg.copt & 8 != 0 { b.with_user_properties(vec![UserProperty::new("k1".to_string(), "v1".to_string()), UserProperty::new("k1".to_string(), "v2".to_string())]); }
    if cfg.copt & 16 != 0 { b.with_request_response_information(true); }
    if cfg.copt & 32 != 0 { b.with_request_problem_information(false); }
    if cfg.copt & 64 != 0 { b.with_will_delay_interval_seconds(17); }
    b.build()
}

/// Fingerprint of the CONNECT fields that come straight from the connect options (everything but
/// clean start and client id, which depend on history); computed from a reference-decoded packet.
pub fn connect_option_hash(p: &Packet, v5: bool) -> u64 {
    let mut s = String::new();
    for (k, v) in &p.f {
        if k == "clean_start" || k == "client_id" { continue; }
        if !v5 && !matches!(k.as_str(), "keep_alive_interval_seconds" | "username" | "password" | "will") { continue; }
        s.push_str(&format!("{}={:?};", k, norm(v, v5)));
    }
    rc::hash31(&[s.as_bytes()])
}

fn norm(v: &V, v5: bool) -> V {
    // will: under 3.1.1 only topic, payload, qos, retain are expressible
    if let V::List(items) = v {
        if !v5 {
            let keep: Vec<V> = items.iter().filter(|e| if let V::List(kv) = e { matches!(&kv[0], V::S(k) if matches!(k.as_str(), "topic" | "payload" | "qos" | "retain")) } else { true }).cloned().collect();
            return V::List(keep);
        }
        // an absent payload equals an empty one; ids of a will are meaningless
        let keep: Vec<V> = items.iter().filter(|e| if let V::List(kv) = e { !matches!(&kv[0], V::S(k) if matches!(k.as_str(), "packet_id" | "duplicate" | "topic_alias" | "subscription_identifiers")) } else { true })
            .map(|e| if let V::List(kv) = e { if kv[1] == V::None && kv[0] == V::S("payload".into()) { V::List(vec![kv[0].clone(), V::Bytes(vec![])]) } else { e.clone() } } else { e.clone() }).collect();
        return V::List(keep);
    }
    v.clone()
}

/// The CONNECT a faithful client would send for `cfg`, in reference representation
pub fn expected_connect(cfg: &RunCfg) -> Packet {
    let mut p = Packet::new(rc::CONNECT);
    p.set("keep_alive_interval_seconds", V::U(if cfg.ka < 0 { 0 } else { cfg.ka as u64 }));
    let opt = |x: i64| if x >= 0 { V::U(x as u64) } else { V::None };
    p.set("topic_alias_maximum", opt(cfg.tam_in));
    p.set("session_expiry_interval_seconds", opt(cfg.sei));
    p.set("receive_maximum", opt(cfg.rm_in));
    p.set("maximum_packet_size_bytes", opt(cfg.mps_in));
    p.set("username", if cfg.copt & 1 != 0 { V::S("user\u{e9}".into()) } else { V::None });
    p.set("password", if cfg.copt & 2 != 0 { V::Bytes(vec![0, 1, 2, 255]) } else { V::None });
    if cfg.copt & 4 != 0 {
        let mut w = Packet::new(rc::PUBLISH);
        for (_, n, _) in rc::property_table(rc::Ctx::Will) { if *n != "will_delay_interval_seconds" { w.set(n, V::None); } }
        w.set("topic", V::S("will/topic".into()));
        w.set("payload", V::Bytes(vec![9, 8, 7]));
        w.set("qos", V::U(1));
        w.set("retain", V::Flag(true));
        w.set("content_type", V::S("ct".into()));
        w.set("user_properties", V::List(vec![V::Pair("wk".into(), "wv".into())]));
        p.set("will", V::List(w.f.iter().map(|(k, v)| V::List(vec![V::S(k.clone()), v.clone()])).collect()));
    } else { p.set("will", V::None); }
    p.set("user_properties", if cfg.copt & 8 != 0 { V::List(vec![V::Pair("k1".into(), "v1".into()), V::Pair("k1".into(), "v2".into())]) } else { V::None });
    p.set("request_response_information", if cfg.copt & 16 != 0 { V::Flag(true) } else { V::None });
    p.set("request_problem_information", if cfg.copt & 32 != 0 { V::Flag(false) } else { V::None });
    p.set("will_delay_interval_seconds", if cfg.copt & 64 != 0 && cfg.copt & 4 != 0 { V::U(17) } else { V::None });
    p.set("authentication_method", V::None);
    p.set("authentication_data", V::None);
    p
}

impl<'a> Sim<'a> {
    pub fn new(cfg: RunCfg, run: u64, seed: u64, tr: &'a mut Trace) -> Sim<'a> {
        let resolver = if cfg.resolver == "manual" { Some(OutboundAliasResolverFactory::new_manual_factory()) }
            else if let Some(n) = cfg.resolver.strip_prefix("lru:") { Some(OutboundAliasResolverFactory::new_lru_factory(n.parse().unwrap_or(2))) }
            else { None };
        let v5 = cfg.ver == 5;
        let engine = Engine::new(EngineConfig {
            connect: build_connect_options(&cfg),
            policy: policy_of(&cfg.policy),
            ping_timeout_ms: cfg.ping_tmo,
            resolver,
            mode: if v5 { ProtocolMode::Mqtt5 } else { ProtocolMode::Mqtt311 },
            drain: if cfg.drain == "One" { PostReconnectQueueDrainPolicy::OneAtATime } else { PostReconnectQueueDrainPolicy::None },
            max_interrupted_retries: if cfg.retries < 0 { None } else { Some(cfg.retries as u32) },
        });
        tr.begin_run(run);
        let ohash = connect_option_hash(&expected_connect(&cfg), v5);
        tr.emit("Cfg", vec![
            ("src", json!(cfg.src)), ("policy", json!(cfg.policy)), ("drain", json!(cfg.drain)), ("retries", json!(cfg.retries)),
            ("ver", json!(cfg.ver)), ("pingTmo", json!(clamp31(cfg.ping_tmo))), ("ka", json!(if cfg.ka < 0 { 0 } else { cfg.ka })),
            ("rejoin", json!(cfg.rejoin)), ("resolver", json!(cfg.resolver)), ("cid", json!(cfg.cid)), ("faithful", json!(cfg.faithful as u8)),
            ("tamIn", json!(if cfg.tam_in < 0 { 0 } else { cfg.tam_in })), ("sei", json!(if cfg.sei < 0 { 0 } else { cfg.sei })),
            ("ohash", json!(ohash)), ("unit", json!(1000)),
            ("resolverKind", json!(if cfg.resolver == "manual" { "manual" } else if cfg.resolver.starts_with("lru:") { "lru" } else { "null" })),
            ("lruMax", json!(cfg.resolver.strip_prefix("lru:").and_then(|n| n.parse::<u64>().ok()).unwrap_or(0))),
        ]);
        let cap = cfg.cap.max(4);
        let tam_in = cfg.tam_in;
        let auto = AutoBroker { rm: cfg.b_rm, ka: cfg.b_ka, tam: cfg.b_tam, mqos: cfg.b_mqos, ret: cfg.b_ret };
        Sim {
            auto,
            cfg, engine, tr, t: 0, buf: Vec::with_capacity(cap), wire: Vec::new(), wire_parsed: 0, call_marks: Vec::new(), tx_end: 0, sock_upto: 0,
            b: Broker { next_srv_pid: 1, tam_in, all_legal: true, ..Default::default() },
            ops: BTreeMap::new(), next_key: 1, dead: false, rng: StdRng::seed_from_u64(seed), v5,
            panics: 0, steps_skipped: 0, pump_limit_hits: 0,
        }
    }

    fn emit(&mut self, ev: &str, mut fields: Vec<(&str, Value)>) {
        fields.insert(0, ("t", json!(clamp31(self.t))));
        self.tr.emit(ev, fields);
    }

    /// Runs an engine call, catching panics (a panic is data: it is recorded and ends the run)
    fn guarded<T>(&mut self, name: &str, f: impl FnOnce(&mut Engine) -> T) -> Option<T> {
        let engine = &mut self.engine;
        match catch_unwind(AssertUnwindSafe(|| f(engine))) {
            Ok(v) => Some(v),
            Err(_) => {
                self.panics += 1;
                self.dead = true;
                self.emit("Panic", vec![("where", json!(name))]);
                None
            }
        }
    }

    fn completions(&mut self, during: &str) {
        let list = match catch_unwind(AssertUnwindSafe(|| self.engine.drain_completions())) { Ok(l) => l, Err(_) => return };
        self.emit_completions(list, during);
    }

    fn emit_completions(&mut self, list: Vec<Completion>, during: &str) {
        for c in list {
            let (ok, err, ack, pid, codes, rcode) = match &c.outcome {
                Outcome::Qos0 => (1, "", "", 0u64, 0usize, 0u64),
                Outcome::Ack(t, flat) => {
                    let p = flat_to_packet(*t, flat);
                    let codes = p.list("reason_codes").len();
                    (1, "", rc::type_name(*t), p.pid() as u64, codes, p.u("reason_code").unwrap_or(0))
                }
                Outcome::Err(e) => (0, err_kind(e), "", 0, 0, 0),
            };
            if let Some(info) = self.ops.get_mut(&c.key) { info.resolved = true; }
            self.emit("Complete", vec![("op", json!(c.key)), ("ok", json!(ok)), ("err", json!(err)), ("ack", json!(ack)),
                ("pid", json!(pid)), ("codes", json!(codes)), ("rc", json!(rcode)), ("during", json!(during))]);
        }
    }

    fn state(&self) -> &'static str { self.engine.state() }

    // ---- wire parsing: what the engine emitted, decoded by the reference codec -----------------

    fn time_of_offset(&self, off: usize) -> u64 {
        for (end, t) in &self.call_marks { if *end > off { return *t; } }
        self.t
    }

    fn parse_wire(&mut self) {
        let framed = rc::frame(&self.wire[self.wire_parsed..]);
        let base = self.wire_parsed;
        for (first, body, start, end) in framed.frames {
            let t0 = self.time_of_offset(base + start);
            let t1 = self.time_of_offset(base + end - 1);
            let decoded = rc::decode(first, &body, self.v5);
            self.wire_parsed = base + end;
            self.tx_end = base + end;
            self.on_tx(first, decoded, t0, t1, end - start, false);
        }
    }

    fn flush_partial(&mut self) {
        if self.wire_parsed < self.wire.len() {
            let first = self.wire[self.wire_parsed];
            let n = self.wire.len() - self.wire_parsed;
            let t0 = self.time_of_offset(self.wire_parsed);
            self.on_tx(first, Err("partial".into()), t0, self.t, n, true);
        }
        self.wire.clear();
        self.wire_parsed = 0;
        self.call_marks.clear();
    }

    fn tag_of(p: &Packet) -> u64 {
        let parse = |s: &str| -> u64 {
            let digits: String = s.chars().skip_while(|c| !c.is_ascii_digit()).take_while(|c| c.is_ascii_digit()).collect();
            digits.parse().unwrap_or(0)
        };
        match p.ptype {
            rc::PUBLISH => { let pl = p.bytes("payload").unwrap_or(&[]); if pl.first() == Some(&b'p') { parse(&String::from_utf8_lossy(&pl[..pl.len().min(12)])) } else { 0 } }
            rc::SUBSCRIBE => { if let Some(V::List(e)) = p.list("subscriptions").first() { if let V::S(f) = &e[0] { if f.starts_with("s/") { return parse(f); } } } 0 }
            rc::UNSUBSCRIBE => { if let Some(V::S(f)) = p.list("topic_filters").first() { if f.starts_with("u/") { return parse(f); } } 0 }
            _ => 0,
        }
    }

    fn content_hash(p: &Packet) -> u64 {
        // application content: everything except packet id, dup flag, topic and alias (aliasing may
        // legitimately replace the topic on the wire)
        let mut s = String::new();
        for (k, v) in &p.f {
            if matches!(k.as_str(), "packet_id" | "duplicate" | "topic" | "topic_alias") { continue; }
            s.push_str(&format!("{}={:?};", k, v));
        }
        rc::hash31(&[s.as_bytes()])
    }

    fn on_tx(&mut self, first: u8, decoded: Result<Packet, String>, t0: u64, t1: u64, size: usize, partial: bool) {
        let conn = self.b.conn;
        let mut f: Vec<(&str, Value)> = vec![("t0", json!(clamp31(t0))), ("conn", json!(conn))];
        match decoded {
            Ok(p) => {
                let tag = Self::tag_of(&p);
                let n = match p.ptype { rc::SUBSCRIBE => p.list("subscriptions").len(), rc::UNSUBSCRIBE => p.list("topic_filters").len(), _ => 0 };
                let (clean, cid, ka, ohash) = if p.ptype == rc::CONNECT {
                    (p.flag("clean_start") as i64, p.s("client_id").unwrap_or("").to_string(), p.u("keep_alive_interval_seconds").unwrap_or(0) as i64, connect_option_hash(&p, self.v5) as i64)
                } else { (-1, String::new(), -1, -1) };
                f.extend(vec![
                    ("type", json!(rc::type_name(p.ptype))), ("pid", json!(p.pid())), ("dup", json!(p.flag("duplicate") as u8)),
                    ("qos", json!(p.u("qos").unwrap_or(0))), ("retain", json!(p.flag("retain") as u8)),
                    ("topic", json!(p.s("topic").unwrap_or(""))), ("alias", json!(p.u("topic_alias").unwrap_or(0))),
                    ("op", json!(tag)), ("hash", json!(Self::content_hash(&p))), ("n", json!(n)),
                    ("clean", json!(clean)), ("cid", json!(cid)), ("ka", json!(ka)), ("ohash", json!(ohash)),
                    ("rc", json!(p.u("reason_code").unwrap_or(0))),
                    ("partial", json!(0)), ("size", json!(size)),
                ]);
                // the emission time of a packet is the time of the service call that wrote its last byte
                let saved = self.t; self.t = t1; self.emit("Tx", f); self.t = saved;
                self.broker_on_tx(&p, t1);
            }
            Err(why) => {
                f.extend(vec![
                    ("type", json!(if partial { rc::type_name(first >> 4) } else { "UNDECODABLE" })), ("pid", json!(0)), ("dup", json!(0)), ("qos", json!(0)), ("retain", json!(0)),
                    ("topic", json!(if partial { String::new() } else { why })), ("alias", json!(0)), ("op", json!(0)), ("hash", json!(0)), ("n", json!(0)),
                    ("clean", json!(-1)), ("cid", json!("")), ("ka", json!(-1)), ("ohash", json!(-1)), ("rc", json!(0)),
                    ("partial", json!(partial as u8)), ("size", json!(size)),
                ]);
                let saved = self.t; self.t = t1; self.emit("Tx", f); self.t = saved;
            }
        }
    }

    fn broker_on_tx(&mut self, p: &Packet, t: u64) {
        let due = t + self.cfg.ack_delay;
        let end_off = self.tx_end;
        let owe = |kind: u8, pid: u16, n: usize, b: &mut Broker| b.owed.push(Owed { kind, pid, n, due, answered: false, end_off });
        match p.ptype {
            rc::CONNECT => { self.b.connect_seen = true; self.b.connect_clean = p.flag("clean_start"); owe(rc::CONNACK, 0, 0, &mut self.b); }
            rc::PUBLISH => { match p.u("qos").unwrap_or(0) { 1 => owe(rc::PUBACK, p.pid(), 0, &mut self.b), 2 => owe(rc::PUBREC, p.pid(), 0, &mut self.b), _ => {} } }
            rc::PUBREL => owe(rc::PUBCOMP, p.pid(), 0, &mut self.b),
            rc::SUBSCRIBE => owe(rc::SUBACK, p.pid(), p.list("subscriptions").len(), &mut self.b),
            rc::UNSUBSCRIBE => owe(rc::UNSUBACK, p.pid(), p.list("topic_filters").len(), &mut self.b),
            rc::PINGREQ => owe(rc::PINGRESP, 0, 0, &mut self.b),
            rc::PUBREC => { if !self.b.pubrec_seen.contains(&p.pid()) { self.b.pubrec_seen.push(p.pid()); } }
            _ => {}
        }
    }

    // ---- engine entry points -----------------------------------------------------------------

    fn do_service(&mut self, cap: usize) -> bool {
        if self.buf.is_empty() && self.buf.capacity() != cap.max(4) { self.buf = Vec::with_capacity(cap.max(4)); }
        let pre = self.buf.len();
        let t = self.t;
        let mut buf = std::mem::take(&mut self.buf);
        let r = self.guarded("service", |e| e.service(t, &mut buf));
        self.buf = buf;
        let Some(r) = r else { return false; };
        let out = self.buf.len() - pre;
        if out > 0 {
            self.wire.extend_from_slice(&self.buf[pre..]);
            self.call_marks.push((self.wire.len(), self.t));
        }
        let (state, pwc) = (self.state(), self.snapshot_pwc());
        let mut fields = vec![("cap", json!(self.buf.capacity())), ("pre", json!(pre)), ("out", json!(out)), ("result", json!(res_str(&r))), ("state", json!(state)), ("pwc", json!(pwc as u8))];
        let list = match catch_unwind(AssertUnwindSafe(|| self.engine.drain_completions())) { Ok(l) => l, Err(_) => Vec::new() };
        if self.state_events() {
            // what EngineTrace needs to replay this call: how many packets were completed by it, whether one was
            // left partially encoded, and which operations failed last-chance validation
            let nfull = rc::frame(&self.wire[self.wire_parsed..]).frames.len();
            let cur = match catch_unwind(AssertUnwindSafe(|| self.engine.snapshot().current_operation)) { Ok(c) => c, Err(_) => None };
            let vfail: Vec<u64> = list.iter().filter(|c| matches!(&c.outcome, Outcome::Err(e) if err_kind(e) == "PacketValidationFailure")).filter_map(|c| self.ops.get(&c.key).map(|o| o.eid)).collect();
            fields.push(("nfull", json!(nfull)));
            fields.push(("partial", json!((cur.is_some() && r.is_ok()) as u8)));
            fields.push(("vfail", json!(vfail)));
        }
        self.emit("Service", fields);
        self.emit_completions(list, "service");
        self.parse_wire();
        self.surfaced();
        self.emit_state();
        r.is_ok()
    }

    fn state_events(&self) -> bool { STATE_EVENTS.load(std::sync::atomic::Ordering::Relaxed) }

    /// Full projection of the engine state after an entry point call (for EngineTrace.tla)
    fn emit_state(&mut self) {
        if !self.state_events() || self.dead { return; }
        let Ok(s) = catch_unwind(AssertUnwindSafe(|| self.engine.snapshot())) else { return; };
        let opt = |x: Option<u64>| x.map(|v| json!(clamp31(v))).unwrap_or(json!(-1));
        let ops: Vec<Value> = s.operations.iter().map(|o| json!([o.id, o.ptype, o.qos, o.dup as u8, o.packet_id.unwrap_or(0), o.has_pubrel as u8, o.user as u8, o.slow_start, o.interruptions])).collect();
        let pairs = |v: &Vec<(u16, u64)>| -> Vec<Value> { v.iter().map(|(a, b)| json!([a, b])).collect() };
        self.emit("St", vec![
            ("state", json!(s.state)), ("pwc", json!(s.pending_write_completion as u8)), ("ops", json!(ops)),
            ("userQ", json!(s.user_queue)), ("resubQ", json!(s.resubmit_queue)), ("hpQ", json!(s.high_priority_queue)),
            ("cur", json!(s.current_operation.map(|x| x as i64).unwrap_or(-1))), ("qos2In", json!(s.qos2_incoming)),
            ("alloc", json!(pairs(&s.allocated_packet_ids))), ("pendPub", json!(pairs(&s.pending_publish))), ("pendNon", json!(pairs(&s.pending_non_publish))),
            ("pwcOps", json!(s.pending_write_completion_operations)),
            ("tmos", json!(s.ack_timeouts.iter().map(|(id, at)| json!([id, clamp31(*at)])).collect::<Vec<Value>>())),
            ("nextOp", json!(s.next_operation_id)), ("nextPid", json!(s.next_packet_id)), ("hasConn", json!(s.has_connected_successfully as u8)),
            ("nextPing", opt(s.next_ping_ms)), ("pingTmo", opt(s.ping_timeout_ms)), ("connackTmo", opt(s.connack_timeout_ms)), ("slow", json!(s.slow_start_ack_count)),
        ]);
    }

    fn snapshot_pwc(&mut self) -> bool {
        match catch_unwind(AssertUnwindSafe(|| self.engine.snapshot().pending_write_completion)) { Ok(v) => v, Err(_) => false }
    }

    fn do_write_done(&mut self) -> bool {
        let t = self.t;
        let Some(r) = self.guarded("write_completion", |e| e.write_completion(t)) else { return false; };
        self.buf.clear();
        self.sock_upto = self.wire.len();
        if self.b.connect_seen && r.is_ok() { self.b.connect_flushed = true; }
        let state = self.state();
        self.emit("WriteDone", vec![("result", json!(res_str(&r))), ("state", json!(state))]);
        self.completions("writedone");
        self.surfaced();
        self.emit_state();
        r.is_ok()
    }

    fn surfaced(&mut self) {
        let list = match catch_unwind(AssertUnwindSafe(|| self.engine.drain_surfaced())) { Ok(l) => l, Err(_) => return };
        self.emit_surfaced(list);
    }

    fn emit_surfaced(&mut self, list: Vec<(u8, Flat)>) {
        let conn = self.b.conn;
        for (t, flat) in list {
            let p = flat_to_packet(t, &flat);
            let hash = rc::hash31(&[p.bytes("payload").unwrap_or(&[])]);
            self.emit("Surface", vec![("conn", json!(conn)), ("type", json!(rc::type_name(t))), ("pid", json!(p.pid())), ("qos", json!(p.u("qos").unwrap_or(0))),
                ("topic", json!(p.s("topic").unwrap_or(""))), ("hash", json!(hash)), ("rc", json!(p.u("reason_code").unwrap_or(0)))]);
            if t == rc::CONNACK && p.u("reason_code") == Some(0) {
                if let Ok(Some(s)) = catch_unwind(AssertUnwindSafe(|| self.engine.settings())) {
                    self.emit("Settings", vec![
                        ("rm", json!(s.receive_maximum_from_server)), ("ka", json!(s.server_keep_alive)), ("tam", json!(s.topic_alias_maximum_to_server)),
                        ("mqos", json!(s.maximum_qos as u8)), ("mps", json!(clamp31(s.maximum_packet_size_to_server as u64))), ("ret", json!(s.retain_available as u8)),
                        ("wild", json!(s.wildcard_subscriptions_available as u8)), ("subid", json!(s.subscription_identifiers_available as u8)),
                        ("shared", json!(s.shared_subscriptions_available as u8)), ("sp", json!(s.rejoined_session as u8)), ("cid", json!(s.client_id)),
                        ("sei", json!(clamp31(s.session_expiry_interval as u64))),
                    ]);
                }
            }
        }
    }

    fn feed(&mut self, p: Option<&Packet>, bytes: &[u8], legal: bool, type_name: &str) -> bool {
        if !legal { self.b.all_legal = false; }
        // bytes that were not a packet and were not refused sit in the engine's decoder as the beginning of a frame: whatever the
        // broker sends next on this connection is no longer seen by the engine as the packet it is
        let (p, legal, type_name) = if self.b.misaligned { (None, false, "MISALIGNED") } else { (p, legal, type_name) };
        if std::env::var("VERIF_DEBUG_SNAP").is_ok() { eprintln!("t={} before {}: {:?}", self.t, type_name, self.engine.snapshot()); }
        let t = self.t;
        // deliver in 1..3 chunks so that framing across reads is exercised in every run
        let nchunks = if bytes.len() >= 2 { self.rng.gen_range(1..=3usize.min(bytes.len())) } else { 1 };
        let mut cuts: Vec<usize> = (0..nchunks - 1).map(|_| self.rng.gen_range(1..bytes.len())).collect();
        cuts.sort(); cuts.dedup(); cuts.push(bytes.len());
        let mut start = 0;
        let mut result: GneissResult<()> = Ok(());
        let mut all_surfaced = Vec::new();
        for cut in cuts.iter() {
            let chunk = bytes[start..*cut].to_vec();
            start = *cut;
            let Some((r, s)) = self.guarded("incoming", |e| e.incoming(t, &chunk)) else { return false; };
            all_surfaced.extend(s);
            if r.is_err() { result = r; break; }
        }
        let conn = self.b.conn;
        let state = self.state();
        let g = |name: &str, d: i64| -> Value { p.and_then(|p| p.u(name)).map(|x| json!(clamp31(x))).unwrap_or(json!(d)) };
        let gb = |name: &str| -> Value { p.map(|p| match p.get(name) { V::Flag(b) => json!(*b as i64), _ => json!(-1) }).unwrap_or(json!(-1)) };
        self.emit("Rx", vec![
            ("conn", json!(conn)), ("type", json!(type_name)), ("pid", g("packet_id", 0)), ("rc", g("reason_code", 0)),
            ("codes", json!(p.map(|p| p.list("reason_codes").len()).unwrap_or(0))), ("sp", json!(p.map(|p| p.flag("session_present") as u8).unwrap_or(0))),
            ("rm", g("receive_maximum", -1)), ("ka", g("server_keep_alive", -1)), ("tam", g("topic_alias_maximum", -1)), ("mqos", g("maximum_qos", -1)),
            ("mps", g("maximum_packet_size", -1)), ("ret", gb("retain_available")), ("wild", gb("wildcard_subscriptions_available")),
            ("subid", gb("subscription_identifiers_available")), ("shared", gb("shared_subscriptions_available")),
            ("acid", json!(p.and_then(|p| p.s("assigned_client_identifier")).unwrap_or(""))), ("sei", g("session_expiry_interval", -1)),
            ("qos", g("qos", 0)), ("dup", json!(p.map(|p| p.flag("duplicate") as u8).unwrap_or(0))), ("topic", json!(p.and_then(|p| p.s("topic")).unwrap_or(""))),
            ("alias", g("topic_alias", 0)), ("aliasp", json!(p.map(|p| p.u("topic_alias").is_some() as u8).unwrap_or(0))), ("decoded", json!(p.is_some() as u8)),
            ("hash", json!(p.map(|p| rc::hash31(&[p.bytes("payload").unwrap_or(&[])])).unwrap_or(0))),
            ("result", json!(res_str(&result))), ("state", json!(state)), ("legal", json!(legal as u8)), ("alllegal", json!(self.b.all_legal as u8)), ("chunks", json!(cuts.len())),
        ]);
        if p.is_none() && result.is_ok() { self.b.misaligned = true; self.b.all_legal = false; }
        self.completions("rx");
        self.emit_surfaced(all_surfaced);
        self.emit_state();
        result.is_ok()
    }

    fn send_packet(&mut self, p: &Packet, legal: bool) -> bool {
        let bytes = rc::encode(p, self.v5, None);
        self.feed(Some(p), &bytes, legal, rc::type_name(p.ptype))
    }

    // ---- steps -------------------------------------------------------------------------------

    fn submit(&mut self, kind: &str, qos: u8, topic: &str, tmo: i64, retain: bool, size: usize, alias: u16, entries: usize, variant: &str) {
        let key = self.next_key; self.next_key += 1;
        let t = self.t;
        let tmo_opt = if tmo >= 0 { Some(tmo as u64) } else { None };
        let state_before = self.state();
        let q = match qos { 0 => QualityOfService::AtMostOnce, 1 => QualityOfService::AtLeastOnce, _ => QualityOfService::ExactlyOnce };
        let entries = entries.max(1);
        // deviations only make sense for some kinds; anything else is an ordinary operation
        let variant = match (kind, variant) {
            ("pub", "props" | "bigprop" | "emptytopic" | "wildtopic") => variant,
            ("sub", "wild" | "shared" | "sharedwild" | "subid" | "badfilter" | "nolocalshared") => variant,
            ("unsub", "wild" | "sharedwild" | "badfilter") => variant,
            _ => "",
        };
        // these deviations live in the second and later entries
        let entries = if matches!(variant, "wild" | "shared" | "sharedwild" | "badfilter" | "nolocalshared") { entries.max(2) } else { entries };
        let (hash, len);
        use gneiss_mqtt::verif::validate::{outbound, UserPacket};
        let verdict;
        match kind {
            "pub" => {
                let mut payload = format!("p{};", key).into_bytes();
                while payload.len() < size { payload.push(b'a' + (payload.len() % 23) as u8); }
                let topic_s = if variant == "emptytopic" { String::new() } else if variant == "wildtopic" { "a/+/b".to_string() } else { topic.to_string() };
                let mut b = PublishPacket::builder(topic_s, q).with_payload(payload.clone()).with_retain(retain);
                if variant == "bigprop" { b = b.with_user_property(UserProperty::new("k".into(), "v".repeat(70000))); }
                if variant == "props" { b = b.with_user_property(UserProperty::new("a".into(), "b".into())).with_content_type("x/y".into()).with_correlation_data(vec![1, 2, 3]).with_message_expiry_interval_seconds(60); }
                let packet = b.build();
                len = payload.len();
                let mut rp = Packet::new(rc::PUBLISH);
                rp.set("qos", V::U(qos as u64)); rp.set("retain", V::Flag(retain)); rp.set("payload", V::Bytes(payload));
                hash = 0; let _ = rp;
                verdict = outbound(&UserPacket::Publish(packet.clone()));
                if verdict.is_ok() {
                    self.ops.insert(key, OpInfo { eid: 0, kind: kind.into(), qos, entries: 0, resolved: false });
                    self.emit_submit(key, kind, qos, topic, alias, 0, tmo, retain, hash, len, state_before, variant);
                    let eid = self.guarded("submit", |e| e.publish(t, key, packet, if alias > 0 { Some(alias) } else { None }, tmo_opt));
                    self.note_eid(key, eid);
                }
            }
            "sub" => {
                let mut b = SubscribePacket::builder();
                for i in 0..entries {
                    let filter = match (i, variant) {
                        (0, _) => format!("s/{}/a", key),
                        (_, "wild") => format!("w/{}/+/#", i),
                        (_, "shared") => format!("$share/g/{}", i),
                        (_, "sharedwild") => format!("$share/g/{}/+/x", i),
                        (_, "badfilter") => "a/#/b".to_string(),
                        (_, "nolocalshared") => format!("$share/g/{}", i),
                        _ => format!("f/{}/{}", key, i),
                    };
                    if variant == "nolocalshared" && i > 0 { b = b.with_subscription(Subscription::builder(filter, q).with_no_local(true).build()); }
                    else { b = b.with_subscription_simple(filter, q); }
                }
                if variant == "subid" { b = b.with_subscription_identifier(5); }
                let packet = b.build();
                hash = 0; len = 0;
                verdict = outbound(&UserPacket::Subscribe(packet.clone()));
                if verdict.is_ok() {
                    self.ops.insert(key, OpInfo { eid: 0, kind: kind.into(), qos, entries, resolved: false });
                    self.emit_submit(key, kind, qos, "", 0, entries, tmo, false, hash, len, state_before, variant);
                    let eid = self.guarded("submit", |e| e.subscribe(t, key, packet, tmo_opt));
                    self.note_eid(key, eid);
                }
            }
            _ => {
                let mut b = UnsubscribePacket::builder();
                for i in 0..entries {
                    let filter = match (i, variant) { (0, _) => format!("u/{}/a", key), (_, "wild") => format!("w/{}/+", i), (_, "sharedwild") => format!("$share/g/{}/#", i), (_, "badfilter") => "a/#/b".to_string(), _ => format!("f/{}/{}", key, i) };
                    b = b.with_topic_filter(filter);
                }
                let packet = b.build();
                hash = 0; len = 0;
                verdict = outbound(&UserPacket::Unsubscribe(packet.clone()));
                if verdict.is_ok() {
                    self.ops.insert(key, OpInfo { eid: 0, kind: "unsub".into(), qos: 0, entries, resolved: false });
                    self.emit_submit(key, "unsub", 0, "", 0, entries, tmo, false, hash, len, state_before, variant);
                    let eid = self.guarded("submit", |e| e.unsubscribe(t, key, packet, tmo_opt));
                    self.note_eid(key, eid);
                }
            }
        }
        if let Err(e) = verdict {
            self.emit("Reject", vec![("op", json!(key)), ("kind", json!(kind)), ("why", json!(err_kind(&e))), ("variant", json!(variant))]);
        }
        self.completions("submit");
        self.emit_state();
    }

    fn note_eid(&mut self, key: u64, eid: Option<u64>) {
        if let (Some(eid), Some(info)) = (eid, self.ops.get_mut(&key)) { info.eid = eid; }
        if self.state_events() { if let Some(eid) = eid { self.emit("Eid", vec![("op", json!(key)), ("eid", json!(eid))]); } }
    }

    #[allow(clippy::too_many_arguments)]
    fn emit_submit(&mut self, key: u64, kind: &str, qos: u8, topic: &str, alias: u16, entries: usize, tmo: i64, retain: bool, hash: u64, len: usize, state: &str, variant: &str) {
        self.emit("Submit", vec![("op", json!(key)), ("kind", json!(kind)), ("qos", json!(qos)), ("topic", json!(topic)), ("alias", json!(alias)),
            ("entries", json!(entries)), ("tmo", json!(tmo)), ("retain", json!(retain as u8)), ("hash", json!(hash)), ("len", json!(len)), ("state", json!(state)), ("variant", json!(variant))]);
    }

    fn open(&mut self, deadline: u64) {
        if self.b.open { self.flush_partial(); }
        let t = self.t;
        let Some(r) = self.guarded("connection_opened", |e| e.connection_opened(t, t + deadline)) else { return; };
        if r.is_ok() {
            self.b.conn += 1; self.b.open = true; self.b.connect_seen = false; self.b.connect_flushed = false; self.b.connack_sent = false; self.b.owed.clear(); self.sock_upto = 0; self.tx_end = 0;
            self.b.srv_alias_bound.clear(); self.b.misaligned = false; self.buf.clear(); self.wire.clear(); self.wire_parsed = 0; self.call_marks.clear();
        }
        let (conn, state) = (self.b.conn, self.state());
        self.emit("Open", vec![("conn", json!(conn)), ("deadline", json!(clamp31(t + deadline))), ("result", json!(res_str(&r))), ("state", json!(state))]);
        self.completions("open");
        self.emit_state();
    }

    fn close(&mut self) {
        self.flush_partial();
        let t = self.t;
        let before = if self.state_events() { catch_unwind(AssertUnwindSafe(|| self.engine.snapshot())).ok() } else { None };
        let Some(r) = self.guarded("connection_closed", |e| e.connection_closed(t)) else { return; };
        self.b.open = false; self.b.owed.clear(); self.buf.clear();
        let (conn, state) = (self.b.conn, self.state());
        let mut fields = vec![("conn", json!(conn)), ("result", json!(res_str(&r))), ("state", json!(state))];
        if let Some(pre) = before {
            // the HashMap iteration orders of the two pending tables, recovered from where their operations ended up
            if let Ok(post) = catch_unwind(AssertUnwindSafe(|| self.engine.snapshot())) {
                let pubs: Vec<u64> = pre.pending_publish.iter().map(|(_, id)| *id).collect();
                let nons: Vec<u64> = pre.pending_non_publish.iter().map(|(_, id)| *id).collect();
                let mut po: Vec<u64> = Vec::new();
                let tail_start = post.resubmit_queue.len().saturating_sub(pubs.len());
                for id in post.resubmit_queue[tail_start..].iter() { if pubs.contains(id) && !po.contains(id) { po.push(*id); } }
                for id in pubs.iter() { if !po.contains(id) { po.push(*id); } }
                let mut no: Vec<u64> = Vec::new();
                for id in post.user_queue.iter() { if nons.contains(id) && !no.contains(id) { no.push(*id); } }
                no.reverse();
                for id in nons.iter() { if !no.contains(id) { no.push(*id); } }
                fields.push(("po", json!(po)));
                fields.push(("no", json!(no)));
            }
        }
        self.emit("Close", fields);
        self.completions("close");
        self.emit_state();
    }

    fn reset(&mut self) {
        self.flush_partial();
        let t = self.t;
        if self.guarded("reset", |e| e.reset(t)).is_none() { return; }
        self.b.open = false; self.b.owed.clear(); self.b.has_session = false; self.buf.clear();
        let state = self.state();
        self.emit("Reset", vec![("state", json!(state))]);
        self.completions("reset");
        self.emit_state();
        self.snapshot(true);
    }

    fn next_svc(&mut self) -> Option<u64> {
        let t = self.t;
        let r = self.guarded("next_service", |e| e.next_service_ms(t))?;
        let state = self.state();
        self.emit("NextSvc", vec![("at", json!(r.map(|x| clamp31(x)).unwrap_or(-1))), ("state", json!(state))]);
        r
    }

    fn snapshot(&mut self, quiescent: bool) {
        let Ok(s) = catch_unwind(AssertUnwindSafe(|| self.engine.snapshot())) else { return; };
        let unresolved = self.ops.values().filter(|o| !o.resolved).count();
        self.emit("Snapshot", vec![
            ("quiescent", json!(quiescent as u8)), ("state", json!(s.state)), ("ops", json!(s.operations.len())), ("userOps", json!(s.operations.iter().filter(|o| o.user).count())),
            ("userQ", json!(s.user_queue.len())), ("resubQ", json!(s.resubmit_queue.len())), ("hpQ", json!(s.high_priority_queue.len())),
            ("cur", json!(s.current_operation.is_some() as u8)), ("alloc", json!(s.allocated_packet_ids.len())), ("pendPub", json!(s.pending_publish.len())),
            ("pendNon", json!(s.pending_non_publish.len())), ("pwcOps", json!(s.pending_write_completion_operations.len())), ("tmo", json!(s.ack_timeouts.len())),
            ("qos2In", json!(s.qos2_incoming.len())), ("unresolved", json!(unresolved)), ("pwc", json!(s.pending_write_completion as u8)),
        ]);
    }

    fn connack_packet(&self, sp: bool, rm: i64, ka: i64, tam: i64, mqos: i64, rcode: u8, ret: i64, wild: i64, subid: i64, shared: i64, mps: i64, acid: &str) -> Packet {
        let mut p = Packet::new(rc::CONNACK).with("session_present", V::Flag(sp)).with("reason_code", V::U(rcode as u64));
        if self.v5 {
            let ou = |x: i64| if x >= 0 { V::U(x as u64) } else { V::None };
            let ob = |x: i64| if x >= 0 { V::Flag(x > 0) } else { V::None };
            p.set("receive_maximum", ou(rm)); p.set("server_keep_alive", ou(ka)); p.set("topic_alias_maximum", ou(tam)); p.set("maximum_qos", ou(mqos));
            p.set("retain_available", ob(ret)); p.set("wildcard_subscriptions_available", ob(wild)); p.set("subscription_identifiers_available", ob(subid));
            p.set("shared_subscriptions_available", ob(shared)); p.set("maximum_packet_size", ou(mps));
            if !acid.is_empty() { p.set("assigned_client_identifier", V::S(acid.to_string())); }
        }
        p
    }

    fn do_connack(&mut self, p: Packet) {
        if !self.b.open { self.steps_skipped += 1; return; }
        let sp = p.flag("session_present");
        let ok = p.u("reason_code") == Some(0);
        let legal = self.b.connect_seen && self.b.connect_flushed && !self.b.connack_sent && (!sp || (!self.b.connect_clean && self.b.has_session)) && (!sp || ok);
        if self.b.connect_seen && !self.b.connack_sent {
            if let Some(o) = self.b.owed.iter_mut().find(|o| o.kind == rc::CONNACK && !o.answered) { o.answered = true; }
        }
        if legal { self.b.connack_sent = true; if ok { if !sp { self.b.pubrec_seen.clear(); self.b.next_srv_pid = 1; } self.b.has_session = true; } }
        self.send_packet(&p, legal);
    }

    fn do_ack(&mut self, which: &str, how: &str) {
        if !self.b.open { self.steps_skipped += 1; return; }
        let pending: Vec<usize> = self.b.owed.iter().enumerate().filter(|(_, o)| !o.answered && o.kind != rc::CONNACK && o.kind != rc::PINGRESP).map(|(i, _)| i).collect();
        let answered: Vec<usize> = self.b.owed.iter().enumerate().filter(|(_, o)| o.answered && o.kind != rc::CONNACK && o.kind != rc::PINGRESP).map(|(i, _)| i).collect();
        let pool = if how == "dup" { &answered } else { &pending };
        if pool.is_empty() {
            if how == "unknownid" {
                // nothing outstanding: an ack for an id the client never used
                let p = Packet::new(rc::PUBACK).with("packet_id", V::U(4242)).with("reason_code", V::U(0));
                self.send_packet(&p, false);
                return;
            }
            self.steps_skipped += 1; return;
        }
        let idx = match which { "newest" => *pool.last().unwrap(), "oldest" => pool[0], s => pool[s.parse::<usize>().unwrap_or(0).min(pool.len() - 1)] };
        let o = self.b.owed[idx].clone();
        let in_order = pool[0] == idx;
        let mut p = Packet::new(o.kind).with("packet_id", V::U(o.pid as u64)).with("reason_code", V::U(0));
        if o.kind == rc::SUBACK || o.kind == rc::UNSUBACK { p.set("reason_codes", V::List(vec![V::U(0); o.n])); }
        let mut legal = self.b.connack_sent && in_order;
        match how {
            "normal" => { self.b.owed[idx].answered = true; }
            // MQTT 5 "No matching subscribers" (0x10) on PUBACK / PUBREC: a success code, the exchange goes on as usual
            "nomatch" => {
                self.b.owed[idx].answered = true;
                if self.v5 && (o.kind == rc::PUBACK || o.kind == rc::PUBREC) { p.set("reason_code", V::U(0x10)); }
            }
            "fail" => {
                self.b.owed[idx].answered = true;
                match o.kind {
                    rc::SUBACK | rc::UNSUBACK => p.set("reason_codes", V::List(vec![V::U(0x80); o.n])),
                    rc::PUBCOMP => p.set("reason_code", V::U(if self.v5 { 0x92 } else { 0 })),
                    _ => p.set("reason_code", V::U(if self.v5 { 0x80 } else { 0 })),
                }
            }
            "wrongtype" => {
                legal = false;
                p.ptype = match o.kind { rc::PUBACK => rc::PUBCOMP, rc::PUBREC => rc::PUBACK, rc::PUBCOMP => rc::SUBACK, rc::SUBACK => rc::UNSUBACK, _ => rc::PUBACK };
                if p.ptype == rc::SUBACK || p.ptype == rc::UNSUBACK { p.set("reason_codes", V::List(vec![V::U(0); o.n.max(1)])); }
            }
            "unknownid" => { legal = false; p.set("packet_id", V::U(((o.pid as u64) + 7777) % 65535 + 1)); }
            "dup" => { legal = false; }
            "wrongcount" => {
                legal = false;
                if o.kind == rc::SUBACK || o.kind == rc::UNSUBACK { p.set("reason_codes", V::List(vec![V::U(0); o.n + 1])); self.b.owed[idx].answered = true; } else { self.steps_skipped += 1; return; }
            }
            _ => { self.steps_skipped += 1; return; }
        }
        // a PUBREC that fails ends the exchange: no PUBREL will follow
        self.send_packet(&p, legal);
    }

    fn do_inpub(&mut self, qos: u8, pid: i64, dup: bool, alias: &str, topic: &str) {
        if !self.b.open { self.steps_skipped += 1; return; }
        let q = qos.min(2) as usize;
        let id: u16 = if qos == 0 { 0 } else if pid == -2 && self.b.last_srv_pid[q] != 0 { self.b.last_srv_pid[q] } else if pid > 0 { pid as u16 } else { let v = self.b.next_srv_pid; self.b.next_srv_pid = if v >= 60000 { 1 } else { v + 1 }; v };
        if qos > 0 { self.b.last_srv_pid[q] = id; }
        let key = self.next_key; // not an operation; only used to make payloads distinct
        let mut p = Packet::new(rc::PUBLISH).with("qos", V::U(qos as u64)).with("packet_id", V::U(id as u64)).with("duplicate", V::Flag(dup))
            .with("topic", V::S(topic.to_string())).with("payload", V::Bytes(format!("in{}-{}-{}", key, id, self.tr.seq).into_bytes()));
        let mut legal = self.b.connack_sent && self.v5 | (alias == "none");
        if self.v5 {
            match alias {
                "bind" => { p.set("topic_alias", V::U(1)); if self.b.tam_in < 1 { legal = false; } else if !self.b.srv_alias_bound.contains(&1) { self.b.srv_alias_bound.push(1); } }
                "reuse" => { p.set("topic_alias", V::U(1)); p.set("topic", V::S(String::new())); if !self.b.srv_alias_bound.contains(&1) { legal = false; } }
                "unknown" => { p.set("topic_alias", V::U(2)); p.set("topic", V::S(String::new())); legal = false; }
                "zero" => { p.set("topic_alias", V::U(0)); legal = false; }
                "range" => { p.set("topic_alias", V::U((self.b.tam_in.max(0) as u64) + 1)); legal = false; }
                _ => {}
            }
        }
        self.send_packet(&p, legal);
    }

    fn do_inpubrel(&mut self, pid: i64) {
        if !self.b.open { self.steps_skipped += 1; return; }
        let (id, known) = if pid == -3 { (31999u16, false) } else if pid > 0 { (pid as u16, self.b.pubrec_seen.contains(&(pid as u16))) } else if let Some(first) = self.b.pubrec_seen.first().copied() { (first, true) } else { self.steps_skipped += 1; return; };
        if known { self.b.pubrec_seen.retain(|x| *x != id); }
        let p = Packet::new(rc::PUBREL).with("packet_id", V::U(id as u64)).with("reason_code", V::U(0));
        let legal = self.b.connack_sent && known;
        self.send_packet(&p, legal);
    }

    fn deliver_due(&mut self) -> bool {
        // automatic conforming broker: answer the oldest owed entry that is due
        let t = self.t;
        let sock = self.sock_upto;
        let Some(idx) = self.b.owed.iter().position(|o| !o.answered && o.due <= t && o.end_off <= sock) else { return false; };
        let o = self.b.owed[idx].clone();
        match o.kind {
            rc::CONNACK => {
                let sp = !self.b.connect_clean && self.b.has_session;
                let p = self.connack_packet(sp, self.auto.rm, self.auto.ka, self.auto.tam, self.auto.mqos, 0, self.auto.ret, -1, -1, -1, -1, "");
                self.do_connack(p);
            }
            rc::PINGRESP => { self.b.owed[idx].answered = true; let p = Packet::new(rc::PINGRESP); let legal = self.b.connack_sent; self.send_packet(&p, legal); }
            _ => {
                let pos = self.b.owed.iter().enumerate().filter(|(_, o)| !o.answered && o.kind != rc::CONNACK && o.kind != rc::PINGRESP).position(|(i, _)| i == idx).unwrap_or(0);
                self.do_ack(&pos.to_string(), "normal");
            }
        }
        true
    }

    fn earliest_due(&self) -> Option<u64> { self.b.owed.iter().filter(|o| !o.answered).map(|o| o.due).min() }

    /// Faithful driver: service only at reported times and after each delivered event; writes
    /// complete as a whole; the automatic broker answers everything it owes.
    fn pump(&mut self, until: u64, to_idle: bool) {
        let mut iterations = 0;
        loop {
            if self.dead { return; }
            iterations += 1;
            if iterations > 20000 { self.pump_limit_hits += 1; self.emit("PumpLimit", vec![("iterations", json!(iterations))]); return; }
            let st = self.state();
            if st == "Disconnected" || st == "Halted" { return; }
            let ns = self.next_svc();
            if self.dead { return; }
            let mut enabled: Vec<u8> = Vec::new();
            if !self.buf.is_empty() { enabled.push(0); }
            if matches!(ns, Some(x) if x <= self.t) { enabled.push(1); }
            let sock = self.sock_upto;
            if self.b.owed.iter().any(|o| !o.answered && o.due <= self.t && o.end_off <= sock) { enabled.push(2); }
            if enabled.is_empty() {
                let mut next = until;
                if let Some(x) = ns { next = next.min(x); }
                if let Some(d) = self.earliest_due() { next = next.min(d); }
                let future_work = self.earliest_due().is_some() || matches!(ns, Some(x) if x < until);
                if to_idle && self.earliest_due().is_none() {
                    // idle: only timers (pings, timeouts, deadlines) remain
                    return;
                }
                if !future_work || next >= until { self.t = self.t.max(until); return; }
                self.t = self.t.max(next);
                continue;
            }
            let pick = enabled[self.rng.gen_range(0..enabled.len())];
            let ok = match pick {
                0 => {
                    // the transport accepts all that is left, or only part of it
                    let unwritten = self.wire.len() - self.sock_upto;
                    if unwritten > 1 && self.rng.gen_bool(0.3) { self.sock_upto += self.rng.gen_range(1..unwritten); true }
                    else { self.do_write_done() }
                }
                1 => { let cap = self.cfg.cap; self.do_service(cap) }
                _ => { self.deliver_due(); self.state() != "Halted" }
            };
            if !ok { return; }
        }
    }

    pub fn step(&mut self, s: &Step) {
        if self.dead { return; }
        match s {
            Step::Submit { kind, qos, topic, tmo, retain, size, alias, entries, variant } => self.submit(kind, *qos, topic, *tmo, *retain, *size, *alias, *entries, variant),
            Step::Disconnect {} => { let t = self.t; self.emit("UserDisconnect", vec![]); self.guarded("disconnect", |e| e.disconnect(t, DisconnectPacket::builder().build())); self.completions("submit"); self.emit_state(); }
            Step::Open { deadline } => self.open(*deadline),
            Step::Close {} => self.close(),
            Step::Reset {} => self.reset(),
            Step::Service { cap } => { self.do_service(*cap); }
            Step::WriteDone {} => { self.do_write_done(); }
            Step::Flush {} => { if !self.buf.is_empty() { self.do_write_done(); } else { self.steps_skipped += 1; } }
            Step::Drain { cap } => {
                for _ in 0..10000 {
                    if self.dead { break; }
                    let before = self.buf.len();
                    if !self.do_service(*cap) { break; }
                    if self.buf.is_empty() { break; }
                    let progressed = self.buf.len() != before;
                    if !self.do_write_done() { break; }
                    if !progressed { /* buffer was already full of unflushed data */ }
                }
            }
            Step::Connack { sp, rm, ka, tam, mqos, rc: rcode, ret, wild, subid, shared, mps, acid } => {
                let p = self.connack_packet(*sp, *rm, *ka, *tam, *mqos, *rcode, *ret, *wild, *subid, *shared, *mps, acid);
                self.do_connack(p);
            }
            Step::Ack { which, how } => self.do_ack(which, how),
            Step::InPub { qos, pid, dup, alias, topic } => self.do_inpub(*qos, *pid, *dup, alias, topic),
            Step::InPubrel { pid } => self.do_inpubrel(*pid),
            Step::Pingresp {} => {
                if !self.b.open { self.steps_skipped += 1; return; }
                let owed = self.b.owed.iter_mut().find(|o| o.kind == rc::PINGRESP && !o.answered);
                let legal = owed.is_some() && self.b.connack_sent;
                if let Some(o) = owed { o.answered = true; }
                self.send_packet(&Packet::new(rc::PINGRESP), legal);
            }
            Step::ServerDisconnect {} => {
                if !self.b.open { self.steps_skipped += 1; return; }
                let legal = self.b.connack_sent && self.v5;
                self.send_packet(&Packet::new(rc::DISCONNECT).with("reason_code", V::U(0x8B)), legal);
            }
            Step::Auth {} => { if !self.b.open { self.steps_skipped += 1; return; } let p = Packet::new(rc::AUTH).with("reason_code", V::U(0x18)).with("authentication_method", V::S("m".into())); let bytes = rc::encode(&p, true, None); self.feed(Some(&p), &bytes, false, "AUTH"); }
            Step::Garbage { n } => { if !self.b.open { self.steps_skipped += 1; return; } let bytes: Vec<u8> = (0..*n).map(|_| self.rng.gen()).collect(); self.feed(None, &bytes, false, "GARBAGE"); }
            Step::Raw { hex, legal, name } => {
                if !self.b.open { self.steps_skipped += 1; return; }
                let bytes: Vec<u8> = (0..hex.len() / 2).filter_map(|i| u8::from_str_radix(&hex[2 * i..2 * i + 2], 16).ok()).collect();
                // if it is a well-formed packet, report its fields; an answer it carries settles the matching debt
                let decoded = { let fr = rc::frame(&bytes); if fr.frames.len() == 1 && fr.trailing == 0 { rc::decode(fr.frames[0].0, &fr.frames[0].1, self.v5).ok() } else { None } };
                if let Some(p) = &decoded { let pid = p.pid(); if let Some(o) = self.b.owed.iter_mut().find(|o| !o.answered && o.kind == p.ptype && o.pid == pid) { o.answered = true; } }
                let tn = if !name.is_empty() { name.clone() } else if let Some(p) = &decoded { rc::type_name(p.ptype).to_string() } else { "RAW".to_string() };
                self.feed(decoded.as_ref(), &bytes, *legal, &tn);
            }
            Step::Advance { ms } => {
                // a faithful driver never lets time pass on a live connection without servicing at the reported times
                if self.cfg.faithful && self.b.open { let until = self.t + *ms; self.pump(until, false); self.t = self.t.max(until); } else { self.t += *ms; }
            }
            Step::TickToNext { plus } => { if let Some(x) = self.next_svc() { let target = (x as i64 + *plus).max(self.t as i64) as u64; self.t = target; } }
            Step::NextSvc {} => { self.next_svc(); }
            Step::Run { ms } => { let until = self.t + *ms; self.pump(until, false); }
            Step::Quiesce {} => {
                let until = self.t + 3_600_000;
                self.pump(until, true);
                if self.dead { return; }
                let st = self.state();
                let responsive = self.b.all_legal && self.b.owed.iter().all(|o| o.answered);
                self.emit("Quiesce", vec![("state", json!(st)), ("responsive", json!(responsive as u8)), ("open", json!(self.b.open as u8))]);
                self.snapshot(true);
            }
            Step::Snapshot {} => self.snapshot(false),
            Step::Cursor { v } => {
                let v = (*v).max(1);
                if self.dead { return; }
                self.engine.set_next_packet_id(v);
                self.emit("Cursor", vec![("v", json!(v))]);
                self.emit_state();
            }
            Step::Settle {} => {
                if self.b.open && (self.state() == "Halted" || self.state() == "PendingDisconnect") { self.close(); }
                if self.dead { return; }
                if !self.b.open {
                    // the engine halted without a connection from the broker's point of view (a reset while connected):
                    // it still has to be told that the connection is gone - as a recorded Close call like any other
                    if self.state() == "Halted" { self.close(); }
                    self.open(30000);
                }
                self.step(&Step::Quiesce {});
            }
        }
    }

    pub fn finish(&mut self) {
        if !self.dead { self.flush_partial(); }
        let unresolved = self.ops.values().filter(|o| !o.resolved).count();
        let _ = self.ops.values().map(|o| (&o.kind, o.qos, o.entries)).count();
        self.tr.emit("End", vec![("t", json!(clamp31(self.t))), ("unresolved", json!(unresolved)), ("dead", json!(self.dead as u8))]);
    }
}

/// Parameters of the automatic broker's CONNACK in faithful runs
#[derive(Clone, Debug)]
pub struct AutoBroker { pub rm: i64, pub ka: i64, pub tam: i64, pub mqos: i64, pub ret: i64 }
impl Default for AutoBroker { fn default() -> Self { AutoBroker { rm: -1, ka: -1, tam: -1, mqos: -1, ret: -1 } } }

pub fn run_script(script: &Script, run: u64, seed: u64, tr: &mut Trace) -> (u64, u64, u64) {
    let mut sim = Sim::new(script.cfg.clone(), run, seed, tr);
    for s in &script.steps { sim.step(s); }
    sim.finish();
    (sim.panics, sim.steps_skipped, sim.pump_limit_hits)
}
