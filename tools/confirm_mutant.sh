#!/bin/bash
# usage: confirm_mutant.sh <worktree> <demo-filter> ["<extra cargo args for the demonstration, e.g. --features testing,tokio,threaded>"]
# Confirms a seeded change in a scratch worktree of /repo (never in /repo itself):
#   1. the library change alone compiles and the pinned baseline suite passes with it,
#   2. the demonstration fails with the change and passes without it.
# Expects <worktree>/patch.diff and <worktree>/demo.diff.  Prints a JSON summary on the last line.
WT=$1; FILTER=${2:-seeded_demo}; EXTRA=${3:-}
cd $WT || exit 2
export CARGO_TARGET_DIR=$WT/target CARGO_NET_OFFLINE=true
git checkout -q -- . 2>/dev/null; git clean -fdq -e target -e patch.diff -e demo.diff -e meta.json -e DEMO.md >/dev/null 2>&1
git apply patch.diff || { echo '{"error":"patch does not apply"}'; exit 2; }
# 1. baseline suite with the change (same command as /root/.vp/BASELINE.json)
cargo nextest run --workspace --no-fail-fast --tool-config-file pb:/w/lib/nextest.toml --profile pb --test-threads 8 --offline > $WT/baseline.log 2>&1
JUNIT=$(find $WT/target/nextest/pb -name junit.xml | head -1)
python3 - "$JUNIT" > $WT/baseline.json <<'PY'
import sys, json, xml.etree.ElementTree as ET
base = json.load(open('/root/.vp/BASELINE.json'))
want = set(base['stable_pass'])
passed = set()
try:
    root = ET.parse(sys.argv[1]).getroot()
    for ts in root.iter('testsuite'):
        for tc in ts.iter('testcase'):
            ok = not any(c.tag in ('failure', 'error', 'skipped') for c in tc)
            name = ts.get('name') + '::' + tc.get('name')
            if ok: passed.add(name)
except Exception as e:
    print(json.dumps({"error": str(e)})); raise SystemExit
missing = sorted(want - passed)
print(json.dumps({"stable_pass_expected": len(want), "passed_of_those": len(want & passed), "missing": missing[:10]}))
PY
# 2. demonstration with and without the change
git apply demo.diff || { echo '{"error":"demo does not apply"}'; exit 2; }
cargo nextest run -p ${PKG:-gneiss-mqtt} $EXTRA --offline --no-fail-fast $FILTER > $WT/demo_with.log 2>&1; RC_WITH=$?
git apply -R patch.diff
cargo nextest run -p ${PKG:-gneiss-mqtt} $EXTRA --offline --no-fail-fast $FILTER > $WT/demo_without.log 2>&1; RC_WITHOUT=$?
W=$(grep -E "tests run:" $WT/demo_with.log | tail -1 | sed 's/^ *//'); WO=$(grep -E "tests run:" $WT/demo_without.log | tail -1 | sed 's/^ *//')
echo "{\"baseline\": $(cat $WT/baseline.json), \"demo_with_change_rc\": $RC_WITH, \"demo_with_change\": \"$W\", \"demo_without_change_rc\": $RC_WITHOUT, \"demo_without_change\": \"$WO\"}"
