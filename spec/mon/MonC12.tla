------------------------------- MODULE MonC12 -------------------------------
(* C12 - lifecycle: the client's event stream is well-formed; a stop request that no later start
   supersedes stops the client; the event loop only ever ends because the client was closed; a
   stopped client can be started again; close is terminal.

   Events: ClientEv{kind}: Attempt | Success | Failure | Disconnection | Stopped  (listener callbacks, in order)
           User{req, accepted}: UserStart | UserStop | UserStopDisc | UserClose   (requests, in order of issue)
           End{loopAlive, closed, judge}: end of a run, after the transport has done everything it was scripted to do
                                   and generous time has passed (judge = 0: the script left the transport unresponsive)

   Used twice: ClientLifecycle.tla folds it over the events of the implementation-shaped specification,
   TraceCheck.tla over the events recorded from the real tokio and threaded clients. *)
EXTENDS MonBase

Init0 == [run |-> 0, skip |-> FALSE, errs |-> <<>>,
          phase |-> "idle",      \* idle | attempt | up
          stopped |-> TRUE,      \* the last lifecycle event was Stopped (or nothing has happened yet)
          starts |-> 0, used |-> 0,   \* start requests issued / consumed by attempts made while stopped
          want |-> "stopped",    \* what the latest accepted request asks for: stopped | running | closed
          attemptsSinceStart |-> 0]

OnClientEv(m, e) ==
    CASE e.kind = "Attempt" ->
             IF m.phase # "idle" THEN Breach(m, e, "event-order")
             \* every Stopped -> Connecting transition consumes at least one start request
             ELSE IF m.stopped /\ m.used >= m.starts THEN Breach(m, e, "attempt-while-stopped")
             ELSE [m EXCEPT !.phase = "attempt", !.stopped = FALSE, !.used = IF m.stopped THEN @ + 1 ELSE @, !.attemptsSinceStart = @ + 1]
      [] e.kind = "Failure" -> IF m.phase # "attempt" THEN Breach(m, e, "event-order") ELSE [m EXCEPT !.phase = "idle"]
      [] e.kind = "Success" -> IF m.phase # "attempt" THEN Breach(m, e, "event-order") ELSE [m EXCEPT !.phase = "up"]
      [] e.kind = "Disconnection" -> IF m.phase # "up" THEN Breach(m, e, "event-order") ELSE [m EXCEPT !.phase = "idle"]
      [] e.kind = "Stopped" -> IF m.phase # "idle" THEN Breach(m, e, "event-order")
                               ELSE IF m.stopped THEN Breach(m, e, "stopped-twice")
                               ELSE [m EXCEPT !.stopped = TRUE]
      [] OTHER -> m

OnUser(m, e) ==
    IF e.accepted = 0 THEN m
    ELSE CASE e.req = "UserStart" -> [m EXCEPT !.starts = IF @ < 1000 THEN @ + 1 ELSE @, !.want = IF @ = "closed" THEN @ ELSE "running", !.attemptsSinceStart = 0]
           [] e.req \in {"UserStop", "UserStopDisc"} -> [m EXCEPT !.want = IF @ = "closed" THEN @ ELSE "stopped"]
           [] e.req = "UserClose" -> [m EXCEPT !.want = "closed"]
           [] OTHER -> m

OnEnd(m, e) ==
    IF e.loopAlive = 0 /\ m.want # "closed" THEN Breach(m, e, "loop-died")
    ELSE IF e.judge = 0 THEN m
    ELSE IF m.want = "closed" /\ e.loopAlive = 1 THEN Breach(m, e, "close-not-reached")
    ELSE IF m.want = "stopped" /\ (~m.stopped \/ m.phase # "idle") THEN Breach(m, e, "stop-not-reached")
    ELSE IF m.want = "running" /\ m.attemptsSinceStart = 0 /\ m.stopped THEN Breach(m, e, "restart-failed")
    ELSE m

Apply(m, e) ==
    IF e.ev = "Cfg" THEN [Init0 EXCEPT !.run = e.run, !.errs = m.errs]
    ELSE IF m.skip THEN m
    ELSE CASE e.ev = "ClientEv" -> OnClientEv(m, e)
           [] e.ev = "User" -> OnUser(m, e)
           [] e.ev = "End" -> OnEnd(m, e)
           [] e.ev = "Panic" -> Breach(m, e, "panic")
           [] OTHER -> m
=============================================================================
