------------------------------- MODULE MonC09 -------------------------------
(* C09 - receive maximum and post-reconnect slow start are never exceeded.  "Interrupted" is read
   relative to the most recent disconnection. *)
EXTENDS MonBase

Init0 == [run |-> 0, skip |-> FALSE, errs |-> <<>>,
          one |-> FALSE,         \* one-at-a-time drain policy configured
          rm |-> 65535,
          ops |-> EmptyMap,      \* op -> [ack: needs an acknowledgement, pub: QoS>0 publish]
          out |-> {},            \* acknowledgement-requiring operations completely transmitted on this connection, unresolved
          interrupted |-> {},    \* operations the most recent disconnection caught sent and unacknowledged
          slow |-> FALSE]        \* slow start in force on this connection

Apply(m, e) ==
    IF e.ev = "Cfg" THEN [Init0 EXCEPT !.run = e.run, !.errs = m.errs, !.one = (e.drain = "One")]
    ELSE IF m.skip THEN m
    ELSE CASE e.ev = "Submit" -> [m EXCEPT !.ops = Put(@, e.op, [ack |-> NeedsAck(e.kind, e.qos), pub |-> (e.kind = "pub" /\ e.qos >= 1)])]
           [] e.ev = "Rx" /\ e.type = "CONNACK" /\ e.result = "ok" ->
                  [m EXCEPT !.rm = IF e.rm = -1 THEN 65535 ELSE e.rm, !.out = {}, !.slow = (m.one /\ m.interrupted # {})]
           [] e.ev = "Tx" /\ e.partial = 0 /\ e.op # 0 /\ Has(m.ops, e.op) /\ m.ops[e.op].ack /\ e.type \in {"PUBLISH", "SUBSCRIBE", "UNSUBSCRIBE"} ->
                  LET out2 == m.out \cup {e.op}
                      pubs == {k \in out2 : m.ops[k].pub}
                  IN IF m.ops[e.op].pub /\ Cardinality(pubs) > m.rm THEN Breach(m, e, "receive-maximum")
                     ELSE IF m.slow /\ e.op \notin m.out /\ m.out # {} THEN Breach(m, e, "slow-start")
                     ELSE [m EXCEPT !.out = out2]
           [] e.ev = "Complete" ->
                  LET i2 == m.interrupted \ {e.op}
                  IN [m EXCEPT !.out = @ \ {e.op}, !.interrupted = i2, !.slow = (@ /\ i2 # {})]
           [] e.ev = "Close" -> [m EXCEPT !.interrupted = m.out, !.out = {}, !.slow = FALSE]
           [] e.ev = "Open" -> [m EXCEPT !.out = {}, !.slow = FALSE]
           [] e.ev = "Reset" -> [m EXCEPT !.out = {}, !.interrupted = {}, !.slow = FALSE]
           [] OTHER -> m
=============================================================================
