---- MODULE CodecProto ----
(* Throw-away prototype for DESIGN.md (C02): MQTT 5 PUBLISH layout with symbolic lengths. *)
EXTENDS Naturals, Sequences, TLC, Json
VARIABLE p

None == 0 - 1
Lens == {0, 1, 127, 128, 16383, 16384, 65535}
VbiSize(n) == IF n < 128 THEN 1 ELSE IF n < 16384 THEN 2 ELSE IF n < 2097152 THEN 3 ELSE 4
RECURSIVE VbiBytes(_)
VbiBytes(n) == IF n < 128 THEN <<n>> ELSE <<(n % 128) + 128>> \o VbiBytes(n \div 128)

\* abstract packet: lengths only; content is a fill pattern chosen by the harness
Universe ==
  [ qos : 0..2, dup : {FALSE}, retain : BOOLEAN, topicLen : {1, 65535}, skipTopic : BOOLEAN,
    alias : {None, 7}, payloadLen : {None, 0, 127, 128}, pfi : {None, 1}, expiry : {None, 3600},
    respLen : {None, 128}, corrLen : {None, 16384}, ctLen : {None, 1}, nUser : {0, 2} ]
Legal(x) == (x.skipTopic => x.alias # None)

Seg(t, v) == [t |-> t, v |-> v]
Opt(c, segs) == IF c THEN segs ELSE <<>>
Props(x) ==
     Opt(x.pfi # None,    << Seg("u8", 1),  Seg("u8", x.pfi) >>)
  \o Opt(x.expiry # None, << Seg("u8", 2),  Seg("u32", x.expiry) >>)
  \o Opt(x.alias # None,  << Seg("u8", 35), Seg("u16", x.alias) >>)
  \o Opt(x.respLen # None,<< Seg("u8", 8),  Seg("u16", x.respLen), Seg("str:response_topic", x.respLen) >>)
  \o Opt(x.corrLen # None,<< Seg("u8", 9),  Seg("u16", x.corrLen), Seg("bin:correlation_data", x.corrLen) >>)
  \o Opt(x.ctLen # None,  << Seg("u8", 3),  Seg("u16", x.ctLen),   Seg("str:content_type", x.ctLen) >>)
  \o (IF x.nUser = 0 THEN <<>> ELSE
        << Seg("u8", 38), Seg("u16", 1), Seg("str:user0.name", 1), Seg("u16", 2), Seg("str:user0.value", 2),
           Seg("u8", 38), Seg("u16", 1), Seg("str:user1.name", 1), Seg("u16", 2), Seg("str:user1.value", 2) >>)
SegSize(s) == CASE s.t = "u8" -> 1 [] s.t = "u16" -> 2 [] s.t = "u32" -> 4 [] s.t = "vbi" -> VbiSize(s.v) [] OTHER -> s.v
RECURSIVE Sum(_)
Sum(segs) == IF segs = <<>> THEN 0 ELSE SegSize(Head(segs)) + Sum(Tail(segs))

Body(x) ==
  LET props == Props(x)
      tl == IF x.skipTopic THEN 0 ELSE x.topicLen
  IN << Seg("u16", tl) >> \o Opt(tl > 0, << Seg("str:topic", tl) >>)
     \o Opt(x.qos > 0, << Seg("u16:packet_id", 0) >>)
     \o << Seg("vbi", Sum(props)) >> \o props
     \o Opt(x.payloadLen # None /\ x.payloadLen # 0, << Seg("bin:payload", x.payloadLen) >>)
FirstByte(x) == 48 + (IF x.dup THEN 8 ELSE 0) + 2 * x.qos + (IF x.retain THEN 1 ELSE 0)
Layout(x) == LET b == Body(x) IN << Seg("u8", FirstByte(x)), Seg("vbi", Sum(b)) >> \o b

Init == p \in {x \in Universe : Legal(x)}
Next == UNCHANGED p
Spec == Init /\ [][Next]_p
Emit == PrintT(<<"CASE", ToJson([pkt |-> p, rl |-> Sum(Body(p)), rlBytes |-> VbiBytes(Sum(Body(p))), layout |-> Layout(p)])>>)
====
