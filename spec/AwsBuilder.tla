----------------------------- MODULE AwsBuilder -----------------------------
(***************************************************************************************************
 Implementation-shaped specification of the option flow of gneiss-mqtt-aws
 (gneiss-mqtt-aws/src/lib.rs: AwsCustomAuthOptionsBuilder::build / build_query_params,
 AwsClientBuilder::build_final_connect_options, apply_aws_defaults): what the user hands to the
 builders -> what the builder hands to the client.

 Strings are sequences of byte values; Absent (<<-1>>) is "not supplied".  TLC walks every
 configuration of the alphabet (one state per configuration), evaluates the property on the
 specification's own output with the monitor MonC20 - the operator that judges the real builder -
 and prints the configuration, so the harness can put the same configuration through the real
 builder and the check can compare the two outputs.

 Defect (found in the pinned tree, repaired by a "fix:" commit; switched back on to show TLC finds it):
   "empty-client-id-kept"   a user-supplied empty client id is kept, so the client connects with an
                            empty (server-assigned) client id
 ***************************************************************************************************)
EXTENDS Naturals, Integers, Sequences, FiniteSets, TLC, Json, SequencesExt

CONSTANTS Defects

C20 == INSTANCE MonC20

Absent == <<-1>>
Str(s) == s                       \* strings are written as tuples of byte values below

\* ---- urlencoding::encode: unreserved characters stay, everything else becomes %XX (upper case)
HexDigit(n) == IF n < 10 THEN 48 + n ELSE 55 + n
RECURSIVE Encode(_)
Encode(s) == IF s = <<>> THEN <<>>
             ELSE IF C20!Unreserved(Head(s)) THEN <<Head(s)>> \o Encode(Tail(s))
             ELSE <<37, HexDigit(Head(s) \div 16), HexDigit(Head(s) % 16)>> \o Encode(Tail(s))

RECURSIVE Join(_, _)
Join(parts, sep) == IF parts = <<>> THEN <<>> ELSE IF Len(parts) = 1 THEN parts[1] ELSE parts[1] \o <<sep>> \o Join(Tail(parts), sep)

\* AwsCustomAuthOptionsBuilder::build_query_params / build
QueryParams(c) ==
    (IF c.authorizer # Absent THEN <<C20!AuthorizerKey \o <<61>> \o c.authorizer>> ELSE <<>>)
    \o (IF c.auth = "signed"
        THEN <<C20!SignatureKey \o <<61>> \o (IF \E i \in 1..Len(c.signature) : c.signature[i] = 37 THEN c.signature ELSE Encode(c.signature))>>
             \o <<c.tokenKey \o <<61>> \o c.tokenValue>>
        ELSE <<>>)
CustomUsername(c) == (IF c.inUser = Absent THEN <<>> ELSE c.inUser) \o <<63>> \o Join(QueryParams(c), 38)

Generated == <<103, 101, 110>>     \* stands for the freshly generated UUID

\* AwsClientBuilder::build_final_connect_options
FinalCid(c) ==
    LET auto == IF "empty-client-id-kept" \in Defects THEN c.inCid = Absent ELSE (c.inCid = Absent \/ c.inCid = <<>>)
    IN IF auto THEN Generated ELSE c.inCid

\* apply_aws_defaults
ApplyDefaults(c) == c.inMode = 311 /\ c.inDrain = "unset" /\ c.inRetries = -1

Output(c) ==
    [outCid |-> FinalCid(c), outConnect |-> c.inConnect, outClient |-> c.inClient,
     outUser |-> IF c.auth = "mtls" THEN c.inUser ELSE CustomUsername(c),
     outPass |-> c.inPass,
     outDrain |-> IF ApplyDefaults(c) THEN "OneAtATime" ELSE c.inDrain,
     outRetries |-> IF ApplyDefaults(c) THEN 2 ELSE c.inRetries]

----------------------------------------------------------------------------------------------------
\* the alphabet

Raw1 == <<97, 43, 98, 47, 99, 61>>              \* "a+b/c="   base64 text with all three characters that need encoding
Raw2 == <<65, 98, 57>>                          \* "Ab9"      nothing to encode
Pre1 == <<97, 37, 50, 66, 98, 37, 50, 70, 99, 37, 51, 68>>      \* "a%2Bb%2Fc%3D"  pre-encoded, upper-case hex
Pre2 == <<97, 37, 50, 98, 98, 37, 50, 102, 99, 37, 51, 100>>    \* "a%2bb%2fc%3d"  pre-encoded, lower-case hex
Sigs == {[given |-> Raw1, raw |-> Raw1], [given |-> Raw2, raw |-> Raw2], [given |-> Pre1, raw |-> Raw1], [given |-> Pre2, raw |-> Raw1]}

Configs ==
    {[inCid |-> cid, inConnect |-> ic, inClient |-> 7, inMode |-> mode, inDrain |-> dr, inRetries |-> rt,
      auth |-> a.auth, authorizer |-> a.authorizer, signature |-> a.sig.given, rawSignature |-> a.sig.raw,
      tokenKey |-> <<116, 107>>, tokenValue |-> <<116, 45, 118>>, inUser |-> u, inPass |-> pw] :
        cid \in {Absent, <<>>, <<99, 49>>}, ic \in {0, 5}, mode \in {5, 311}, dr \in {"unset", "None", "OneAtATime"}, rt \in {-1, 0, 5},
        a \in {[auth |-> "mtls", authorizer |-> Absent, sig |-> [given |-> <<>>, raw |-> <<>>]]}
              \cup {[auth |-> "unsigned", authorizer |-> az, sig |-> [given |-> <<>>, raw |-> <<>>]] : az \in {Absent, <<97, 122>>}}
              \cup {[auth |-> "signed", authorizer |-> az, sig |-> s] : az \in {Absent, <<97, 122>>}, s \in Sigs},
        u \in {Absent, <<117, 115, 114>>}, pw \in {Absent, <<1, 2, 255>>}}

AsEvent(c, o) == [ev |-> "Aws", run |-> 1, seq |-> 0] @@ c @@ o

VARIABLE rest
Init == rest = SetToSeq(Configs)
Next == /\ rest # <<>>
        /\ PrintT(<<"CASE", ToJson([cfg |-> Head(rest), out |-> Output(Head(rest))])>>)
        /\ rest' = Tail(rest)
Spec == Init /\ [][Next]_rest

\* the property, evaluated on the specification's own output by the monitor that judges the real builder
PropertyHolds ==
    rest # <<>> => LET c == Head(rest)
                       m == C20!Apply(C20!Init0, AsEvent(c, Output(c)))
                   IN m.errs = <<>> \/ (PrintT(<<"CEX", ToJson([cfg |-> c, errs |-> m.errs])>>) /\ FALSE)
=============================================================================
