#!/bin/bash
# usage: mcsize.sh <name> <timeout-s> "<python kwargs overriding mcconf.BASE>" | mcsize.sh <name> <timeout-s> @C06:quick
# Sizes one candidate EngineMC instance: prints distinct states / time or the last progress line.
W=/tmp/w/size; mkdir -p $W
cd /verif/spec
python3 - "$3" > $W/$1.cfg <<'PY'
import sys
sys.path.insert(0, '/verif/tools')
import mcconf
a = sys.argv[1]
if a.startswith('@'):
    pid, tier = a[1:].split(':')
    d = mcconf.INSTANCES[pid][tier][0]
else:
    d = mcconf.inst(**eval("dict(%s)" % a, {"mcconf": mcconf, "dict": dict}))
print(mcconf.cfg_text(d))
PY
S=$(date +%s)
JAVA_TOOL_OPTIONS="-Xss1g -Xmx12g -DTLA-Library=/verif/spec/mon" timeout $2 tlc -workers ${WORKERS:-12} -noGenerateSpecTE -metadir $W/meta-$1 -cleanup -config $W/$1.cfg EngineConf.tla > $W/$1.out 2>&1
RC=$?; E=$(date +%s)
echo "$1 rc=$RC $((E-S))s $(grep -E 'distinct states found, 0 states|is violated' $W/$1.out | head -2 | tr '\n' ' ') $(grep Progress $W/$1.out | tail -1 | sed 's/.*: //' | cut -c1-130)"
rm -rf $W/meta-$1
