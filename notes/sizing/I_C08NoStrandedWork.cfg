SPECIFICATION Spec
CONSTANTS MaxOps = 2  MaxConns = 2  PidMax = 3  Budgets = {1, 2, 4}
INVARIANT C08NoStrandedWork
CHECK_DEADLOCK FALSE
