SPECIFICATION Spec
CONSTANT Which = {"C01","C02","C04","C05","C06","C07","C08","C09","C10","C11","C14","C15","C16","C17","C18"}
INVARIANT Verdict
POSTCONDITION Consumed
CHECK_DEADLOCK FALSE
