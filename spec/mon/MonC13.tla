------------------------------- MODULE MonC13 -------------------------------
(* C13 - both drivers move bytes faithfully and always deliver an operation's result.

   Events recorded from the real tokio and threaded clients over scripted transports (arbitrary partial
   writes, would-block, read fragmentation, WebSocket messages of any size):
     OpSubmit{op, kind, qos, afterClose}   an operation handed to the client handle; publishes carry the tag `op` in their payload
     OpResult{op, ok}                      its future / receiver / callback produced a result
     OpUnresolved{op}                      at the end of the run (loop known to have exited, or generous time passed) no result
     Wrote{conn, type, pid, tag, intact}   a complete packet the transport received, decoded by the reference codec
                                           (type UNDECODABLE: the byte stream is not a sequence of MQTT packets)
     Sent{conn, tag}                       the scripted broker sent a PUBLISH with this tag to the client
     Recv{tag, intact}                     a PUBLISH surfaced to the application (intact: payload byte-identical to what was sent)
     End{judge}                            end of run; judge = 0: the script left the transport unresponsive

   "Faithful" is judged at packet level: what the engine produces is a sequence of packets; lost, duplicated or
   reordered bytes show as an undecodable stream, a damaged payload, a missing or a repeated packet. *)
EXTENDS MonBase

Init0 == [run |-> 0, skip |-> FALSE, errs |-> <<>>,
          ops |-> EmptyMap,       \* op -> [kind, qos, results, ok, wrote (times its packet was seen on the current connection), ever]
          sent |-> <<>>,          \* tags the broker sent, in order
          recv |-> 0,             \* how many of them have been surfaced
          conn |-> 0]

B(m, e, rule) == [Breach(m, e, rule) EXCEPT !.skip = FALSE]

Apply(m, e) ==
    IF e.ev = "Cfg" THEN [Init0 EXCEPT !.run = e.run, !.errs = m.errs]
    ELSE IF m.skip THEN m
    ELSE CASE e.ev = "OpSubmit" -> [m EXCEPT !.ops = Put(@, e.op, [kind |-> e.kind, qos |-> e.qos, results |-> 0, ok |-> 0, wrote |-> 0, ever |-> 0])]
           [] e.ev = "OpResult" ->
                  IF ~Has(m.ops, e.op) THEN B(m, e, "result-twice")
                  ELSE IF m.ops[e.op].results >= 1 THEN B(m, e, "result-twice")
                  ELSE [m EXCEPT !.ops[e.op].results = 1, !.ops[e.op].ok = e.ok]
           [] e.ev = "OpUnresolved" -> B(m, e, "result-missing")
           [] e.ev = "Wrote" ->
                  LET m1 == IF e.conn # m.conn THEN [m EXCEPT !.conn = e.conn, !.ops = MapAll(@, LAMBDA o : [o EXCEPT !.wrote = 0])] ELSE m
                  IN IF e.type = "UNDECODABLE" THEN B(m1, e, "stream-mismatch")
                     ELSE IF e.type # "PUBLISH" THEN m1
                     ELSE IF e.intact = 0 THEN B(m1, e, "stream-mismatch")
                     ELSE IF ~Has(m1.ops, e.tag) THEN B(m1, e, "stream-mismatch")                      \* a publish nobody submitted
                     ELSE IF m1.ops[e.tag].wrote >= 1 THEN B(m1, e, "stream-mismatch")                 \* the same publish twice on one connection
                     ELSE [m1 EXCEPT !.ops[e.tag].wrote = 1, !.ops[e.tag].ever = 1]
           [] e.ev = "Sent" -> [m EXCEPT !.sent = Append(@, e.tag)]
           [] e.ev = "Recv" ->
                  IF m.recv >= Len(m.sent) THEN B(m, e, "inbound-corrupt")                             \* something nobody sent
                  ELSE IF m.sent[m.recv + 1] # e.tag \/ e.intact = 0 THEN B(m, e, "inbound-corrupt")
                  ELSE [m EXCEPT !.recv = @ + 1]
           [] e.ev = "End" ->
                  IF e.judge = 1 /\ e.expectAllRecv = 1 /\ m.recv # Len(m.sent) THEN B(m, e, "inbound-corrupt")   \* bytes were lost on the way in
                  \* (judged at the end: a transport on another thread may log a packet after the result that depends on it)
                  \* (not judged when the client closed a real socket: closing with unread data resets the connection and the peer
                  \* may lose bytes it had not read yet - lossless = 0)
                  ELSE IF e.judge = 1 /\ (e.closed = 0 \/ e.lossless = 1) /\ \E o \in DOMAIN m.ops : m.ops[o].kind = "pub" /\ m.ops[o].ok = 1 /\ m.ops[o].ever = 0
                       THEN B(m, e, "stream-mismatch")                                                              \* reported as sent, never reached the transport
                  ELSE m
           [] e.ev = "Panic" -> B(m, e, "panic")
           [] OTHER -> m
=============================================================================
