---- MODULE LifecycleProto ----
(* Throw-away prototype for DESIGN.md (C12): MqttClientImpl + event loop + transport, reduced. *)
EXTENDS Naturals, Sequences, TLC
CONSTANTS MaxReq, MaxAttempts
VARIABLES cur, desired, stopDisc, pst, disc, chan, loop, ns, connackOk, phase, bad, reqs, attempts, stopPending, stoppedSeen
vars == <<cur, desired, stopDisc, pst, disc, chan, loop, ns, connackOk, phase, bad, reqs, attempts, stopPending, stoppedSeen>>

Init == /\ cur = "Stopped" /\ desired = "Stopped" /\ stopDisc = FALSE /\ pst = "Disc" /\ disc = "none"
        /\ chan = <<>> /\ loop = "run" /\ ns = "none" /\ connackOk = FALSE /\ phase = "idle" /\ bad = FALSE
        /\ reqs = 0 /\ attempts = 0 /\ stopPending = FALSE /\ stoppedSeen = FALSE

\* compute_optional_state_transition
Compute(c, d, sd) ==
  CASE c = "Stopped" /\ d = "Connected" -> "Connecting"
    [] c = "Stopped" /\ d = "Shutdown" -> "Shutdown"
    [] c \in {"Connecting", "PendingReconnect"} /\ d # "Connected" -> "Stopped"
    [] c = "Connected" /\ d # "Connected" /\ ~sd -> "Stopped"
    [] OTHER -> "none"

\* event-stream monitor: (Attempt (Failure | Success Disconnection))*, Stopped only when idle
Emit(ph, b, evs) ==
  LET RECURSIVE F(_, _, _)
      F(p, x, es) == IF es = <<>> THEN <<p, x>> ELSE
        LET e == Head(es) IN
        CASE e = "Attempt"       -> F("attempting", x \/ p # "idle", Tail(es))
          [] e = "Failure"       -> F("idle", x \/ p # "attempting", Tail(es))
          [] e = "Success"       -> F("up", x \/ p # "attempting", Tail(es))
          [] e = "Disconnection" -> F("idle", x \/ p # "up", Tail(es))
          [] e = "Stopped"       -> F(p, x \/ p # "idle", Tail(es))
  IN F(ph, b, evs)

User(cmd) == /\ reqs < MaxReq /\ Len(chan) < 2 /\ loop = "run" /\ cur # "Shutdown"
             /\ chan' = Append(chan, cmd) /\ reqs' = reqs + 1
             /\ UNCHANGED <<cur, desired, stopDisc, pst, disc, loop, ns, connackOk, phase, bad, attempts, stopPending, stoppedSeen>>

TakeCmd ==
  /\ loop = "run" /\ ns = "none" /\ chan # <<>> /\ cur # "Shutdown"
  /\ LET c == Head(chan) IN
     /\ chan' = Tail(chan)
     /\ CASE c = "Start" -> /\ desired' = "Connected" /\ stopDisc' = FALSE /\ stopPending' = FALSE /\ UNCHANGED <<pst, disc>>
          [] c \in {"Stop", "StopDisc"} ->
               /\ desired' = "Stopped" /\ stopDisc' = (c = "StopDisc") /\ stopPending' = TRUE
               /\ IF c = "StopDisc" /\ pst = "Conn" THEN disc' = "queued" /\ UNCHANGED pst
                  ELSE IF c = "StopDisc" /\ pst = "PendDisc" THEN pst' = "Halted" /\ UNCHANGED disc
                  ELSE UNCHANGED <<pst, disc>>
          [] c = "Close" -> /\ desired' = "Shutdown" /\ disc' = "none" /\ pst' = (IF pst = "Disc" THEN "Disc" ELSE "Halted")
                            /\ stopPending' = FALSE /\ UNCHANGED stopDisc
     /\ ns' = Compute(cur, desired', stopDisc')
  /\ UNCHANGED <<cur, loop, connackOk, phase, bad, reqs, attempts, stoppedSeen>>

\* one select! branch of process_connected; afterwards compute the optional transition
Branch(pst2, disc2, ok2, evs, forced) ==
  /\ pst' = pst2 /\ disc' = disc2 /\ connackOk' = ok2
  /\ LET r == Emit(phase, bad, evs) IN phase' = r[1] /\ bad' = r[2]
  /\ ns' = IF forced # "none" THEN forced ELSE Compute(cur, desired, stopDisc)
  /\ UNCHANGED <<cur, desired, stopDisc, chan, loop, reqs, attempts, stopPending, stoppedSeen>>

InConnected == loop = "run" /\ ns = "none" /\ cur = "Connected"
ServiceWritesDisconnect == InConnected /\ pst = "Conn" /\ disc = "queued" /\ Branch("PendDisc", "written", connackOk, <<>>, "none")
FlushDisconnect == InConnected /\ disc = "written" /\ Branch("Halted", "none", connackOk, <<>>, "PendingReconnect")
RecvConnackOk   == InConnected /\ pst = "PendConnack" /\ Branch("Conn", disc, TRUE, <<"Success">>, "none")
RecvConnackFail == InConnected /\ pst = "PendConnack" /\ Branch("Halted", disc, FALSE, <<>>, "PendingReconnect")
TransportDown   == InConnected /\ Branch(pst, disc, connackOk, <<>>, "PendingReconnect")

ConnOutcome(ok) == /\ loop = "run" /\ ns = "none" /\ cur = "Connecting"
                   /\ ns' = IF ok THEN "Connected" ELSE "PendingReconnect"
                   /\ UNCHANGED <<cur, desired, stopDisc, pst, disc, chan, loop, connackOk, phase, bad, reqs, attempts, stopPending, stoppedSeen>>
ReconnectTimer == /\ loop = "run" /\ ns = "none" /\ cur = "PendingReconnect" /\ attempts < MaxAttempts
                  /\ ns' = "Connecting"
                  /\ UNCHANGED <<cur, desired, stopDisc, pst, disc, chan, loop, connackOk, phase, bad, reqs, attempts, stopPending, stoppedSeen>>

\* transition_to_state, including the `?` on the protocol events and the loop-exit rule
Transition ==
  /\ loop = "run" /\ ns # "none"
  /\ LET n1 == IF ns = "PendingReconnect" /\ desired # "Connected" THEN "Stopped" ELSE ns
         new == IF n1 = "Stopped" /\ desired = "Shutdown" THEN "Shutdown" ELSE n1
     IN IF new = cur THEN ns' = "none" /\ UNCHANGED <<cur, desired, stopDisc, pst, disc, chan, loop, connackOk, phase, bad, reqs, attempts, stopPending, stoppedSeen>>
        ELSE IF new = "Connected" /\ pst # "Disc"
          THEN loop' = "dead" /\ UNCHANGED <<cur, desired, stopDisc, pst, disc, chan, ns, connackOk, phase, bad, reqs, attempts, stopPending, stoppedSeen>>
        ELSE IF cur = "Connected" /\ (pst = "Disc" \/ disc # "none")
          THEN \* ConnectionClosed returns Err: failing the user's DISCONNECT, or closed twice
               loop' = "dead" /\ pst' = "Halted" /\ UNCHANGED <<cur, desired, stopDisc, disc, chan, ns, connackOk, phase, bad, reqs, attempts, stopPending, stoppedSeen>>
        ELSE LET evs == (IF new = "Connecting" THEN <<"Attempt">> ELSE <<>>)
                        \o (IF cur = "Connecting" /\ new # "Connected" THEN <<"Failure">> ELSE <<>>)
                        \o (IF cur = "Connected" THEN (IF connackOk THEN <<"Disconnection">> ELSE <<"Failure">>) ELSE <<>>)
                        \o (IF new = "Stopped" THEN <<"Stopped">> ELSE <<>>)
                 r == Emit(phase, bad, evs)
             IN /\ cur' = new /\ ns' = "none" /\ phase' = r[1] /\ bad' = r[2]
                /\ pst' = IF new = "Connected" THEN "PendConnack" ELSE IF cur = "Connected" THEN "Disc" ELSE pst
                /\ connackOk' = IF new = "Connecting" THEN FALSE ELSE connackOk
                /\ stopDisc' = IF new \in {"Connecting", "Stopped"} THEN FALSE ELSE stopDisc
                /\ attempts' = IF new = "Connecting" THEN attempts + 1 ELSE attempts
                /\ stoppedSeen' = (stoppedSeen \/ new = "Stopped")
                /\ stopPending' = IF new = "Stopped" THEN FALSE ELSE stopPending
                /\ loop' = IF new = "Shutdown" THEN "done" ELSE loop
                /\ UNCHANGED <<desired, disc, chan, reqs>>

Loop == TakeCmd \/ ServiceWritesDisconnect \/ FlushDisconnect \/ RecvConnackOk \/ RecvConnackFail
        \/ ConnOutcome(TRUE) \/ ConnOutcome(FALSE) \/ ReconnectTimer \/ Transition
Next == Loop \/ TransportDown \/ \E c \in {"Start", "Stop", "StopDisc", "Close"} : User(c)
Spec == Init /\ [][Next]_vars /\ WF_vars(Loop)

WellFormed == ~bad
LoopNeverDies == loop # "dead"
StopStops == (desired = "Stopped") ~> (cur = "Stopped" \/ desired # "Stopped" \/ loop = "dead")
====
