#!/usr/bin/env python3
"""Regenerates MANIFEST.json from the table below (single source of truth for what is claimed)."""
import json, os, subprocess
ROOT = os.path.dirname(os.path.dirname(os.path.abspath(__file__)))

hook_commits = [l.split()[0] for l in subprocess.check_output(["git", "-C", "/repo", "log", "--format=%h %s"]).decode().splitlines() if l.split()[1].startswith("verif:")]

CLAIMED = {
 # id: (technique, level text, level note, design ref)
 "C01": ("TLA+ monitor MonC01 folded by TLC over recorded engine executions (trace validation); Engine.tla model checking",
         "Every completion of every recorded execution is judged by the TLA+ monitor (exactly once, own acknowledgement type and id, ack actually received after the transmission, one code per entry, everything failed and nothing tracked after reset).",
         "harness reference codec/broker; monitor rules; bounded random and regression scenario sets", "7/C01"),
}
ENGINE_TEXT = {
 "C02": "Engine-run half: every emitted packet is decoded by the independent reference decoder and compared with what was submitted (MonC02).",
 "C04": "Wire sequences of every QoS 1/2 publish across reconnects judged by MonC04 (DUP, same id/content on resumed retransmission, nothing after PUBREC/completion, PUBREL accounting).",
 "C05": "Inbound publish acknowledgement order/ownership and exactly-once QoS 2 surfacing judged by MonC05.",
 "C06": "Packet identifier non-zero, uniqueness among in-flight operations, reuse on retransmission and leak freedom judged by MonC06.",
 "C07": "CONNECT first and faithful, silence before CONNACK and after DISCONNECT, bad handshakes rejected, negotiated settings = merge(CONNACK, CONNECT, defaults) judged by MonC07.",
 "C08": "Faithful-driver runs (service only at reported times) against a responsive broker: no stranded operation, no spinning (MonC08).",
 "C09": "Receive maximum and one-at-a-time slow start bounds judged at every transmission by MonC09.",
 "C10": "Submission order of first transmissions and retransmissions-first after resumed reconnect judged by MonC10.",
 "C11": "No panic at any entry point; nothing emitted or accepted after an error; conforming broker never reported as violating (MonC11).",
 "C14": "Keep-alive gaps, ping timeout deadline (K/2 in ms), no false time-outs, K=0 judged by MonC14 on faithful-driver runs.",
 "C15": "Offline-queue policy: preserved kinds never failed for lack of a connection, rejected kinds failed at intake/close/no-session, in-flight QoS1+ retained (MonC15).",
 "C16": "Engine-run half: nothing statically invalid or breaking the announced limits reaches the wire; nothing valid is rejected (MonC16).",
 "C17": "Server-side alias table replayed over the wire stream; inbound alias obligations (MonC17).",
 "C18": "Ack timeout fires at the first service at/after the deadline and never earlier; interrupted-retry limit exact (MonC18).",
}
for k, v in ENGINE_TEXT.items():
    CLAIMED[k] = ("Engine.tla bounded instances model-checked by TLC with monitor Mon%s composed (state invariants, defect switches refuted, decision histories exported as scripts for the real engine); Mon%s folded by TLC over the recorded executions of the real engine (TLC scripts, seeded random, regressions); recorded calls replayed against Engine.tla by EngineTrace.tla (conformance, invariants on observed states)" % (k, k), v,
                  "harness reference codec/broker; monitor rules; bounded random and regression scenario sets", "7/" + k)

CLAIMED["C02"] = ("Codec.tla case analysis enumerated by TLC (client-to-server layouts) replayed through the public builders and the crate's resumable encoder under many capacity sequences; TLA+ monitor MonC02 folded by TLC over the codec cases and over recorded engine executions",
                  "Every client packet kind / flag combination / property subset / boundary length that TLC enumerates from Codec.tla is built through the public API, encoded under many buffer-capacity sequences (one byte string whatever the capacities) and decoded by the independent reference decoder (itself checked against Codec.tla's bytes on every case) to exactly the abstract content; in engine runs every emitted packet is decoded by the reference decoder and compared with what was submitted (MonC02).",
                  "Codec.tla as the reading of the OASIS specifications; harness reference codec/broker; bounded case analysis; arbitrary string content sampled", "7/C02")
CLAIMED["C03"] = ("Codec.tla case analysis (server-to-client layouts, property and reason-code tables) enumerated by TLC and DecoderFraming.tla model-checked over all chunkings; bytes built by TLC fed to the crate's decoder under many chunkings; TLA+ monitor MonC03 folded by TLC over the outcomes",
                  "Every server packet kind, every reason code the specification admits, every property alone / all / repeated / reversed order, boundary lengths - built by TLC from Codec.tla - is decoded by the crate to exactly that content under whole / byte-by-byte / every two-way split / random chunkings; DecoderFraming.tla (the decoder's three-state framing) is checked by TLC for chunking invariance and refusal of over-size packets at header time over every stream of its alphabet and every partition, and its behaviours are replayed on the code; malformed classes and seeded byte mutations must give one verdict for all chunkings and no panic (MonC03).",
                  "Codec.tla as the reading of the OASIS specifications; mutation classes sampled, not enumerated", "7/C03")
CLAIMED["C12"] = ("ClientLifecycle.tla model-checked by TLC (safety and liveness under fairness, recorded defects rediscovered when switched on); TLC-exported schedules and regression scripts run on the real tokio client over a scripted transport and on the real threaded client; TLA+ monitor MonC12 folded by TLC over the recorded event streams",
                  "TLC checks the client state machine + event loop + transport specification (with operations whose result nobody waits for) for a well-formed event stream, loop survival and stop/start/close liveness over all interleavings of user requests with transport behaviour; schedules exported from the model and regression scripts are executed on the real tokio client (current-thread runtime, paused clock) and, fewer of them, on the real threaded client in real time; the recorded event streams are judged by the same monitor MonC12.",
                  "bounded requests/attempts; threaded client: real time, fewer schedules", "7/C12")
CLAIMED["C19"] = ("Backoff.tla model-checked by TLC with monitor MonC19 composed (every configuration of the alphabet x every history; recorded defects rediscovered when switched on); TLC-exported behaviours, random histories and regression scripts run on the real tokio client on a paused clock; MonC19 folded by TLC over the recorded event streams",
                  "TLC checks normalize / initial period / doubling / clamp / jitter / reset rule against the property for all configurations (zero, sub-millisecond, base>max, near Duration::MAX) and all histories of attempt outcomes and lifetimes up to the bound; the real tokio client is driven through exported and random histories with virtual time, every inter-attempt wait is judged by MonC19 and compared with the wait the specification predicts.",
                  "tokio client only (threaded client shares advance_reconnect_period and the reset rule); 1 ms timer granularity; lifetimes in real time with a 10 ms tolerance", "7/C19")

CLAIMED["C20"] = ("AwsBuilder.tla configurations enumerated by TLC with the property evaluated by monitor MonC20 (recorded defect rediscovered when switched on); the same configurations and seeded random ones put through the real gneiss-mqtt-aws builders; MonC20 folded by TLC over the recorded builder outputs",
                  "Every configuration of the alphabet (client id absent / empty / given; connect and client options; 5 / 3.1.1; drain policy and retry limit set or not; mTLS, unsigned and signed custom authentication with raw and pre-encoded signatures, user name, password) is put through the real builders; MonC20 checks non-empty / preserved client id, preservation of every other option, the custom-auth user name (query string parsed, parameters decoded back, signature percent-encoded exactly once) and the 3.1.1 defaults rule; outputs are also compared with AwsBuilder.tla's.",
                  "verif accessors repeat the trivial prelude of build_tokio/build_threaded; SigV4 and TLS out of scope", "7/C20")

CLAIMED["C13"] = ("BytePump.tla model-checked by TLC (write loop with cursor, WebSocket adapter as written, command channel and result mechanisms; recorded defects rediscovered when switched on); regression, random and TLC-enumerated fragmentation scripts run on the real tokio client (scripted transport) and the real threaded client (scripted non-blocking transport, WebSocket over loopback); TLA+ monitor MonC13 folded by TLC over the recorded packets and results",
                  "TLC checks, over all partial-write / would-block / fragmentation behaviours of the bounded model, that the transport gets exactly the produced bytes in order, that received bytes (WebSocket: concatenated binary payloads of any size, several per read) reach the engine in order, and that every submitted operation gets exactly one result also around loop exit; the real tokio and threaded clients are driven over transports that accept 1..n bytes, stall, fragment reads, and over a WebSocket on loopback (every fragmentation TLC enumerated, stalled reader), and MonC13 judges the packets the transport received, the publishes surfaced and the result of every operation.",
                  "packet-level judgement through the reference codec (tagged payloads); real-time threaded runs; third-party adapters (tokio-tungstenite, TLS) outside the model", "7/C13")

NOT_YET = {
}

checks = []
for pid in sorted(CLAIMED):
    tech, text, note, ref = CLAIMED[pid]
    checks.append({
        "property_id": pid,
        "quick_cmd": "./check %s --tier quick" % pid,
        "thorough_cmd": "./check %s --tier thorough" % pid,
        "evidence_file": "/verif/evidence/%s.json" % pid,
        "replay_cmd_template": "./check %s --replay {path}" % pid,
        "engine": "tla-monitors",
        "level_claimed": {"category": "model_checking", "text": text, "design_ref": "DESIGN.md section " + ref},
        "level_note": note,
        "technique": tech,
    })

manifest = {
    "version": 1,
    "setup_cmd": "cd /verif/harness && cargo build --release --offline && cd /verif/harness-aws && cargo build --release --offline",
    "hooks": {
        "guard": "cargo feature `verif` (gneiss-mqtt)",
        "enable": "the harness depends on /repo/gneiss-mqtt by path with features [\"verif\", ...]; every check rebuilds it from /repo's working tree",
        "baseline_off_cmd": "cd /repo && cargo nextest run --workspace --no-fail-fast --tool-config-file pb:/w/lib/nextest.toml --profile pb --test-threads 8 --offline",
        "source_commits": hook_commits,
        "add_only": True,
    },
    "engines": [
        {"name": "tla-monitors", "path": "/verif/spec/mon", "serves_properties": sorted(CLAIMED), "kind_free_text": "TLA+ specifications (Engine / EngineMC / EngineLive / EngineTrace, ClientLifecycle, Backoff, BytePump, Codec / CodecCases, DecoderFraming, EncoderSteps, Validation, AwsBuilder; defect switches that TLC must refute) and property monitors (pure Apply operators) evaluated by TLC over ndjson traces of the real code, and composed with the implementation-shaped specifications in model checking"},
        {"name": "harness", "path": "/verif/harness", "serves_properties": sorted(CLAIMED), "kind_free_text": "Rust scenario runner: reference MQTT codec, reference broker, scripted/faithful drivers, regression scripts"},
    ],
    "checks": checks,
    "not_applicable": [{"property_id": k, "reason": v} for k, v in sorted(NOT_YET.items())],
    "notes": "Exit codes: 0 held / 1 VIOLATION / 2 tool error. known_findings.json lists fixed and known findings; seeds via VERIF_SEED.",
}
json.dump(manifest, open(os.path.join(ROOT, "MANIFEST.json"), "w"), indent=1)
print("MANIFEST.json written:", len(checks), "checks")
