//! Runs the case analysis that TLC enumerated from spec/Codec.tla (CodecCases.tla) against the real
//! codec of gneiss-mqtt, plus seeded random packets and byte-level mutations, and records one summary
//! event per case as ndjson.  Verdicts come from the TLA+ monitors MonC02 / MonC03.
//!
//!   in  (C03): bytes built by TLC from the specification's layouts -> the crate's incremental decoder
//!              under many chunkings; decoded content against the abstract packet TLC exported;
//!              the same verdict and packets for every chunking; over-size refused at header time.
//!   out (C02): abstract client packets -> the crate's public builders -> the crate's resumable encoder
//!              under many buffer-capacity sequences; the bytes must be one byte string whatever the
//!              capacities, and the reference decoder must recover exactly the abstract content.
//! In both directions the harness's reference codec is run against TLC's bytes, which qualifies the
//! reference codec every engine-level check relies on.

use gneiss_mqtt::client::config::*;
use gneiss_mqtt::mqtt::*;
use gneiss_mqtt::verif::codec as vc;
use rand::prelude::*;
use rand::rngs::StdRng;
use serde_json::{json, Value};
use std::io::{BufRead, Write};
use verif_harness::refcodec as rc;
use verif_harness::refcodec::{Packet, V};
use verif_harness::sim::{err_kind, flat_to_packet};
use verif_harness::trace::Trace;

fn arg(args: &[String], name: &str) -> Option<String> { args.iter().position(|a| a == name).and_then(|i| args.get(i + 1).cloned()) }

fn expand_layout(layout: &Value) -> Vec<u8> {
    let mut out = Vec::new();
    for run in layout.as_array().unwrap() {
        let n = run[0].as_u64().unwrap() as usize;
        let b = run[1].as_u64().unwrap() as u8;
        out.extend(std::iter::repeat(b).take(n));
    }
    out
}

fn sbytes(v: &Value) -> Vec<u8> { vec![v["b"].as_u64().unwrap() as u8; v["n"].as_u64().unwrap() as usize] }
fn sstr(v: &Value) -> String { String::from_utf8(sbytes(v)).unwrap() }

fn type_no(name: &str) -> u8 {
    match name { "CONNECT" => 1, "CONNACK" => 2, "PUBLISH" => 3, "PUBACK" => 4, "PUBREC" => 5, "PUBREL" => 6, "PUBCOMP" => 7, "SUBSCRIBE" => 8, "SUBACK" => 9,
        "UNSUBSCRIBE" => 10, "UNSUBACK" => 11, "PINGREQ" => 12, "PINGRESP" => 13, "DISCONNECT" => 14, _ => 15 }
}

/// the abstract content TLC exported (`fields`) as a neutral packet
fn expected_packet(ptype: u8, fields: &Value, api: bool) -> Packet {
    let mut p = Packet::new(ptype);
    for f in fields.as_array().unwrap() {
        let full = f["name"].as_str().unwrap();
        // name@api: the value the client API shows where it differs from the value on the wire
        let name = match full.strip_suffix("@api") { Some(base) => { if !api { continue; } base } None => full };
        let v = &f["v"];
        let val = match f["t"].as_str().unwrap() {
            "u" => V::U(v.as_u64().unwrap()),
            "flag" => V::Flag(v.as_bool().unwrap()),
            "s" => V::S(sstr(v)),
            "bin" => V::Bytes(sbytes(v)),
            "pairs" => V::List(v.as_array().unwrap().iter().map(|kv| V::Pair(sstr(&kv["k"]), sstr(&kv["v"]))).collect()),
            "ulist" | "codes" => V::List(v.as_array().unwrap().iter().map(|x| V::U(x.as_u64().unwrap())).collect()),
            _ => V::None,
        };
        p.set(name, val);
    }
    p
}

/// an absent payload equals an empty one; everything else must agree literally
fn norm_field(name: &str, v: &V) -> V {
    if name == "payload" { if let V::Bytes(b) = v { if b.is_empty() { return V::None; } } }
    v.clone()
}

/// first field on which `actual` differs from `expected` (fields `expected` does not mention must be absent)
fn first_difference(expected: &Packet, actual: &Packet) -> Option<String> {
    if expected.ptype != actual.ptype { return Some(format!("type {} vs {}", expected.ptype, actual.ptype)); }
    for (k, v) in &expected.f {
        let a = norm_field(k, actual.get(k));
        let e = norm_field(k, v);
        if a != e { return Some(k.clone()); }
    }
    for (k, v) in &actual.f {
        if !expected.f.contains_key(k) && *v != V::None && !(k == "packet_id" && *v == V::U(0)) { return Some(format!("unexpected {}", k)); }
    }
    None
}

fn chunkings(len: usize, rng: &mut StdRng, exhaustive_two_split_below: usize) -> Vec<Vec<usize>> {
    let mut out: Vec<Vec<usize>> = vec![vec![len]];
    if len == 0 { return out; }
    if len <= 5000 { out.push(vec![1; len]); }
    else { let mut c = vec![1; 16]; c.push(len - 16); out.push(c); }
    let cuts: Vec<usize> = if len <= exhaustive_two_split_below { (1..len).collect() } else { let mut c = vec![1, 2, 3, 4, 5, 6, len / 2, len - 1]; c.retain(|x| *x > 0 && *x < len); c.dedup(); c };
    for c in cuts { out.push(vec![c, len - c]); }
    for _ in 0..3 {
        let mut left = len; let mut c = Vec::new();
        while left > 0 { let hi = if rng.gen_bool(0.5) { 3 } else { 64 }; let n = rng.gen_range(1..=left.min(hi)); c.push(n); left -= n; }
        out.push(c);
    }
    out
}

struct Outcome { packets: Vec<Packet>, error: String, error_chunk: Option<usize>, panicked: bool }

fn decode_chunked(bytes: &[u8], sizes: &[usize], v5: bool, max: u32) -> Outcome {
    let mut chunks: Vec<&[u8]> = Vec::new();
    let mut pos = 0;
    for s in sizes { chunks.push(&bytes[pos..pos + s]); pos += s; }
    let r = std::panic::catch_unwind(|| vc::decode(v5, max, &chunks));
    match r {
        Ok(o) => Outcome { packets: o.packets.iter().map(|(t, f)| flat_to_packet(*t, f)).collect(), error: o.error.as_ref().map(|e| err_kind(e).to_string()).unwrap_or_default(), error_chunk: o.error_chunk, panicked: false },
        Err(_) => Outcome { packets: Vec::new(), error: "PANIC".into(), error_chunk: None, panicked: true },
    }
}

fn signature(o: &Outcome) -> String { format!("{:?}|{}", o.packets, o.error) }

fn header_len(bytes: &[u8]) -> usize {
    let mut n = 1;
    while n < bytes.len() && n < 5 { n += 1; if bytes[n - 1] & 0x80 == 0 { break; } }
    n
}

/// one inbound byte string through the crate's decoder under many chunkings; returns the summary fields
fn run_inbound(bytes: &[u8], v5: bool, expected: Option<&[Packet]>, rng: &mut StdRng, exhaustive_below: usize) -> Vec<(&'static str, Value)> {
    let cs = chunkings(bytes.len(), rng, exhaustive_below);
    let mut sigs: Vec<String> = Vec::new();
    let mut panics = 0u64;
    let mut matched = 1u8; let mut rejected = 0u8; let mut diff = String::new();
    let mut first: Option<Outcome> = None;
    for c in &cs {
        let o = decode_chunked(bytes, c, v5, 0);
        if o.panicked { panics += 1; }
        let s = signature(&o);
        if !sigs.contains(&s) { sigs.push(s); }
        if let Some(exp) = expected {
            if !o.error.is_empty() { rejected = 1; matched = 0; if diff.is_empty() { diff = format!("error {}", o.error); } }
            else if o.packets.len() != exp.len() { matched = 0; if diff.is_empty() { diff = format!("{} packets for {}", o.packets.len(), exp.len()); } }
            else { for (e, a) in exp.iter().zip(o.packets.iter()) { if let Some(d) = first_difference(e, a) { matched = 0; if diff.is_empty() { diff = d; } } } }
        }
        if first.is_none() { first = Some(o); }
    }
    let first = first.unwrap();
    // over-size: with a maximum one below the size of the first packet, fed byte by byte, the refusal must come with the
    // byte that completes the fixed header
    let mut oversize_late = 0u8; let mut oversize_accepted = 0u8;
    if expected.is_some() && bytes.len() >= 2 {
        let total = { let fr = rc::frame(bytes); fr.frames.first().map(|f| f.3).unwrap_or(bytes.len()) };
        if total >= 3 {
            let upto = bytes.len().min(total);
            let o = decode_chunked(&bytes[..upto], &vec![1; upto], v5, (total - 1) as u32);
            if o.panicked { panics += 1; }
            match o.error_chunk { None => oversize_accepted = 1, Some(i) => if i + 1 > header_len(bytes) { oversize_late = 1; } }
        }
    }
    vec![("len", json!(bytes.len())), ("chunkings", json!(cs.len())), ("outcomes", json!(sigs.len())), ("panics", json!(panics)),
         ("matched", json!(if expected.is_some() { matched } else { 1 })), ("rejected", json!(rejected)), ("accepted", json!(first.error.is_empty() as u8)),
         ("npackets", json!(first.packets.len())), ("diff", json!(diff)), ("oversizeLate", json!(oversize_late)), ("oversizeAccepted", json!(oversize_accepted))]
}

// ---- client-to-server: abstract packet -> public builders ------------------------------------------------

fn qos_of(n: u64) -> QualityOfService { match n { 0 => QualityOfService::AtMostOnce, 1 => QualityOfService::AtLeastOnce, _ => QualityOfService::ExactlyOnce } }

fn props_of(p: &Value) -> Vec<(u64, Value)> { p["props"].as_array().map(|a| a.iter().map(|x| (x["id"].as_u64().unwrap(), x["v"].clone())).collect()).unwrap_or_default() }

fn build_publish(p: &Value, props: &[(u64, Value)]) -> PublishPacket {
    let mut b = PublishPacket::builder(sstr(&p["topic"]), qos_of(p["qos"].as_u64().unwrap())).with_retain(p["retain"].as_bool().unwrap());
    let payload = sbytes(&p["payload"]);
    if !payload.is_empty() { b = b.with_payload(payload); }
    for (id, v) in props {
        b = match id {
            1 => b.with_payload_format(if v.as_u64().unwrap() == 1 { PayloadFormatIndicator::Utf8 } else { PayloadFormatIndicator::Bytes }),
            2 => b.with_message_expiry_interval_seconds(v.as_u64().unwrap() as u32),
            3 => b.with_content_type(sstr(v)),
            8 => b.with_response_topic(sstr(v)),
            9 => b.with_correlation_data(sbytes(v)),
            38 => b.with_user_property(UserProperty::new(sstr(&v["k"]), sstr(&v["v"]))),
            _ => b,
        };
    }
    b.build()
}

/// Builds the packet through the public API; None when the API cannot express the case (reported, not judged)
fn build_out(p: &Value) -> Option<(vc::OutPacket, bool, Option<u16>)> {
    let ty = p["type"].as_str().unwrap();
    let props = props_of(p);
    match ty {
        "CONNECT" => {
            let mut b = ConnectOptions::builder();
            b.with_keep_alive_interval_seconds(Some(p["keepalive"].as_u64().unwrap() as u16));
            b.with_rejoin_session_policy(if p["clean"].as_bool().unwrap() { RejoinSessionPolicy::Never } else { RejoinSessionPolicy::Always });
            if p["cid"]["n"].as_u64().unwrap() > 0 { b.with_client_id(&sstr(&p["cid"])); }
            if p["hasUser"].as_bool().unwrap() { b.with_username(&sstr(&p["user"])); }
            if p["hasPass"].as_bool().unwrap() { b.with_password(&sbytes(&p["pass"])); }
            let mut ups = Vec::new();
            for (id, v) in &props {
                match id {
                    17 => { b.with_session_expiry_interval_seconds(v.as_u64().unwrap() as u32); }
                    33 => { b.with_receive_maximum(v.as_u64().unwrap() as u16); }
                    39 => { b.with_maximum_packet_size_bytes(v.as_u64().unwrap() as u32); }
                    34 => { b.with_topic_alias_maximum(v.as_u64().unwrap() as u16); }
                    25 => { b.with_request_response_information(v.as_u64().unwrap() != 0); }
                    23 => { b.with_request_problem_information(v.as_u64().unwrap() != 0); }
                    38 => { ups.push(UserProperty::new(sstr(&v["k"]), sstr(&v["v"]))); }
                    _ => return None,     // authentication method / data: no public setter
                }
            }
            if !ups.is_empty() { b.with_user_properties(ups); }
            if p["hasWill"].as_bool().unwrap() {
                let w = &p["will"];
                let wprops = props_of(w);
                for (id, v) in &wprops { if *id == 24 { b.with_will_delay_interval_seconds(v.as_u64().unwrap() as u32); } }
                b.with_will(build_publish(w, &wprops));
            }
            Some((vc::OutPacket::Connect { options: b.build(), connected_previously: false, fallback_client_id: None }, false, None))
        }
        "PUBLISH" => {
            let alias = props.iter().find(|(id, _)| *id == 35).map(|(_, v)| v.as_u64().unwrap() as u16);
            let packet = build_publish(p, &props);
            let qos = p["qos"].as_u64().unwrap();
            Some((vc::OutPacket::Publish { packet, packet_id: if qos > 0 { p["pid"].as_u64().unwrap() as u16 } else { 0 }, duplicate: p["dup"].as_bool().unwrap(), topic_alias: alias }, false, alias))
        }
        "SUBSCRIBE" => {
            let mut b = SubscribePacket::builder();
            for s in p["subs"].as_array().unwrap() {
                let rh = match s["rh"].as_u64().unwrap() { 0 => RetainHandlingType::SendOnSubscribe, 1 => RetainHandlingType::SendOnSubscribeIfNew, _ => RetainHandlingType::DontSend };
                b = b.with_subscription(Subscription::builder(sstr(&s["filter"]), qos_of(s["qos"].as_u64().unwrap())).with_no_local(s["nl"].as_bool().unwrap())
                    .with_retain_as_published(s["rap"].as_bool().unwrap()).retain_handling_type(rh).build());
            }
            for (id, v) in &props { b = match id { 11 => b.with_subscription_identifier(v.as_u64().unwrap() as u32), 38 => b.with_user_property(UserProperty::new(sstr(&v["k"]), sstr(&v["v"]))), _ => b }; }
            Some((vc::OutPacket::Subscribe { packet: b.build(), packet_id: p["pid"].as_u64().unwrap() as u16 }, false, None))
        }
        "UNSUBSCRIBE" => {
            let mut b = UnsubscribePacket::builder();
            for f in p["filters"].as_array().unwrap() { b = b.with_topic_filter(sstr(f)); }
            for (id, v) in &props { if *id == 38 { b = b.with_user_property(UserProperty::new(sstr(&v["k"]), sstr(&v["v"]))); } }
            Some((vc::OutPacket::Unsubscribe { packet: b.build(), packet_id: p["pid"].as_u64().unwrap() as u16 }, false, None))
        }
        "DISCONNECT" => {
            let mut b = DisconnectPacket::builder();
            let rc_ = p["rc"].as_u64().unwrap() as u8;
            if let Ok(code) = DisconnectReasonCode::try_from(rc_) { b = b.with_reason_code(code); } else { return None; }
            for (id, v) in &props {
                b = match id {
                    17 => b.with_session_expiry_interval_seconds(v.as_u64().unwrap() as u32),
                    31 => b.with_reason_string(sstr(v)),
                    38 => b.with_user_property(UserProperty::new(sstr(&v["k"]), sstr(&v["v"]))),
                    _ => return None,     // server reference: not something a client sets
                };
            }
            Some((vc::OutPacket::Disconnect(b.build()), false, None))
        }
        "PUBACK" => Some((vc::OutPacket::Puback(p["pid"].as_u64().unwrap() as u16), false, None)),
        "PUBREC" => Some((vc::OutPacket::Pubrec(p["pid"].as_u64().unwrap() as u16), false, None)),
        "PUBREL" => Some((vc::OutPacket::Pubrel(p["pid"].as_u64().unwrap() as u16), false, None)),
        "PUBCOMP" => Some((vc::OutPacket::Pubcomp(p["pid"].as_u64().unwrap() as u16), false, None)),
        "PINGREQ" => Some((vc::OutPacket::Pingreq, false, None)),
        _ => None,
    }
}

fn capacity_sequences(rng: &mut StdRng, extra: &[Vec<(usize, usize)>]) -> Vec<Vec<(usize, usize)>> {
    let mut out = vec![vec![(0usize, 1usize << 22)], vec![(0, 5)], vec![(0, 7)], vec![(0, 4)], vec![(0, 9)], vec![(0, 16)], vec![(0, 64)], vec![(0, 4096)],
                       vec![(0, 5), (0, 4096)], vec![(3, 8), (0, 6), (1, 9), (0, 4096)], vec![(4090, 4096), (0, 4096)]];
    for _ in 0..4 {
        let mut s = Vec::new();
        for _ in 0..rng.gen_range(1..6) { let cap: usize = rng.gen_range(4..80); let pre = rng.gen_range(0..cap.min(8)); s.push((pre, cap)); }
        s.push((0, rng.gen_range(4..300)));
        out.push(s);
    }
    // capacity sequences exported by TLC from EncoderSteps.tla (the last entry repeats until the packet is complete)
    for e in extra { if !out.contains(e) { out.push(e.clone()); } }
    out
}

/// the content of a client-to-server case as a neutral packet, from the bytes TLC computed (through the reference decoder)
fn main() {
    if std::env::var("VERIF_SHOW_PANICS").is_err() { std::panic::set_hook(Box::new(|_| {})); }
    let args: Vec<String> = std::env::args().collect();
    let out = arg(&args, "--out").unwrap_or_else(|| "codec.ndjson".into());
    let seed: u64 = arg(&args, "--seed").and_then(|s| s.parse().ok()).unwrap_or(1);
    let random_n: usize = arg(&args, "--random").and_then(|s| s.parse().ok()).unwrap_or(0);
    let mutate_n: usize = arg(&args, "--mutate").and_then(|s| s.parse().ok()).unwrap_or(0);
    let mut rng = StdRng::seed_from_u64(seed);
    let mut tr = Trace::new();
    tr.begin_run(1);
    tr.emit("Cfg", vec![("src", json!("codec")), ("seed", json!(seed)), ("ver", json!(5))]);
    let mut extra_caps: Vec<Vec<(usize, usize)>> = Vec::new();
    if let Some(path) = arg(&args, "--caps") {
        let f = std::fs::File::open(&path).expect("caps file");
        for line in std::io::BufReader::new(f).lines() {
            let line = line.unwrap();
            if line.trim().is_empty() { continue; }
            let c: Value = serde_json::from_str(&line).expect("caps json");
            let seq: Vec<(usize, usize)> = c["caps"].as_array().unwrap().iter().map(|x| (x[0].as_u64().unwrap() as usize, x[1].as_u64().unwrap() as usize)).collect();
            if !seq.is_empty() && !extra_caps.contains(&seq) { extra_caps.push(seq); }
        }
    }
    let mut n_cases = 0u64; let mut ref_disagreements: Vec<String> = Vec::new(); let mut inexpressible = 0u64;
    let mut legal_in: Vec<(Vec<u8>, bool, Packet)> = Vec::new();

    for (path, dir) in [(arg(&args, "--cases-in"), "in"), (arg(&args, "--cases-out"), "out")] {
        let Some(path) = path else { continue; };
        let f = std::fs::File::open(&path).expect("cases file");
        for line in std::io::BufReader::new(f).lines() {
            let line = line.unwrap();
            if line.trim().is_empty() { continue; }
            let c: Value = serde_json::from_str(&line).expect("case json");
            n_cases += 1;
            let p = &c["p"];
            let v5 = p["v5"].as_bool().unwrap();
            let ty = p["type"].as_str().unwrap();
            let class = c["class"].as_str().unwrap();
            let bytes = expand_layout(&c["layout"]);
            assert_eq!(bytes.len() as u64, c["len"].as_u64().unwrap());
            let label = format!("{}:{}:{}:{}", dir, if v5 { 5 } else { 311 }, ty, c["note"].as_str().unwrap_or(""));
            if dir == "in" {
                let legal = class == "legal";
                let exp = expected_packet(type_no(ty), &c["fields"], true);
                let exp_wire = expected_packet(type_no(ty), &c["fields"], false);
                // the reference codec against TLC's bytes (qualification of the reference codec)
                let fr = rc::frame(&bytes);
                if legal {
                    let ok = fr.frames.len() == 1 && fr.trailing == 0 && match rc::decode(fr.frames[0].0, &fr.frames[0].1, v5) { Ok(d) => first_difference(&exp_wire, &d).is_none(), Err(_) => false };
                    if !ok { ref_disagreements.push(format!("reference decoder disagrees with Codec.tla on {}", label)); }
                }
                let exp_list = [exp.clone()];
                let mut fields = run_inbound(&bytes, v5, if legal { Some(&exp_list) } else { None }, &mut rng, 300);
                fields.insert(0, ("class", json!(class))); fields.insert(0, ("legal", json!(legal as u8))); fields.insert(0, ("label", json!(label)));
                fields.insert(0, ("v5", json!(v5 as u8))); fields.insert(0, ("type", json!(ty))); fields.insert(0, ("dir", json!("in")));
                tr.emit("Dec", fields);
                if legal && bytes.len() <= 400 { legal_in.push((bytes, v5, exp)); }
            } else {
                // what the reference decoder makes of TLC's bytes is the content the crate's bytes must decode to
                let fr = rc::frame(&bytes);
                let want = if fr.frames.len() == 1 && fr.trailing == 0 { rc::decode(fr.frames[0].0, &fr.frames[0].1, v5).ok() } else { None };
                let Some(want) = want else { ref_disagreements.push(format!("reference decoder rejects Codec.tla's bytes of {}", label)); continue; };
                // and the reference encoder must reproduce TLC's bytes (in TLC's property order)
                let order: Vec<u8> = props_of(p).iter().map(|(id, _)| *id as u8).collect();
                let re = rc::encode(&want, v5, if order.is_empty() { None } else { Some(&order) });
                let ref_exact = re == bytes;
                let Some((packet, skip_topic, alias)) = build_out(p) else { inexpressible += 1; continue; };
                // does the validation the public submit / stop entry points run accept the packet?  (CONNECT options are never validated)
                let validated: u8 = match &packet {
                    vc::OutPacket::Publish { packet, .. } => gneiss_mqtt::verif::validate::outbound(&gneiss_mqtt::verif::validate::UserPacket::Publish(packet.clone())).is_ok() as u8,
                    vc::OutPacket::Subscribe { packet, .. } => gneiss_mqtt::verif::validate::outbound(&gneiss_mqtt::verif::validate::UserPacket::Subscribe(packet.clone())).is_ok() as u8,
                    vc::OutPacket::Unsubscribe { packet, .. } => gneiss_mqtt::verif::validate::outbound(&gneiss_mqtt::verif::validate::UserPacket::Unsubscribe(packet.clone())).is_ok() as u8,
                    vc::OutPacket::Disconnect(d) => gneiss_mqtt::verif::validate::outbound(&gneiss_mqtt::verif::validate::UserPacket::Disconnect(d.clone())).is_ok() as u8,
                    _ => 1,
                };
                let mut outputs: Vec<Vec<u8>> = Vec::new(); let mut err = String::new(); let mut panics = 0u64;
                for caps in capacity_sequences(&mut rng, &extra_caps) {
                    let r = std::panic::catch_unwind(std::panic::AssertUnwindSafe(|| vc::encode(&packet, v5, skip_topic, alias, &caps)));
                    match r {
                        Ok(Ok(chunks)) => { let all: Vec<u8> = chunks.concat(); if !outputs.contains(&all) { outputs.push(all); } }
                        Ok(Err(e)) => { err = err_kind(&e).to_string(); }
                        Err(_) => { panics += 1; }
                    }
                }
                let (mut decodable, mut matched, mut exact, mut diff) = (0u8, 0u8, 0u8, String::new());
                if let Some(first) = outputs.first() {
                    exact = (*first == bytes) as u8;
                    let fr2 = rc::frame(first);
                    if fr2.frames.len() == 1 && fr2.trailing == 0 && fr2.error_at.is_none() {
                        match rc::decode(fr2.frames[0].0, &fr2.frames[0].1, v5) {
                            Ok(got) => { decodable = 1; match first_difference(&want, &got) { None => matched = 1, Some(d) => diff = d } }
                            Err(e) => diff = e,
                        }
                    } else { diff = "framing".into(); }
                }
                tr.emit("Enc", vec![("dir", json!("out")), ("type", json!(ty)), ("v5", json!(v5 as u8)), ("label", json!(label)), ("class", json!(class)), ("validated", json!(validated)), ("len", json!(bytes.len())), ("outputs", json!(outputs.len())),
                    ("error", json!(err)), ("panics", json!(panics)), ("decodable", json!(decodable)), ("matched", json!(matched)), ("exact", json!(exact)), ("refExact", json!(ref_exact as u8)), ("diff", json!(diff))]);
            }
        }
    }

    // behaviours of DecoderFraming.tla: the stream and chunking TLC chose, against what the specification predicts
    let mut n_framing = 0u64; let mut framing_drift: Vec<String> = Vec::new();
    if let Some(path) = arg(&args, "--framing") {
        let f = std::fs::File::open(&path).expect("framing file");
        for line in std::io::BufReader::new(f).lines() {
            let line = line.unwrap();
            if line.trim().is_empty() { continue; }
            let c: Value = serde_json::from_str(&line).expect("framing json");
            let mut bytes: Vec<u8> = Vec::new();
            let mut all_good = true;
            for fr in c["frames"].as_array().unwrap() {
                let (k, n, bad) = (fr["k"].as_u64().unwrap(), fr["n"].as_u64().unwrap() as usize, fr["bad"].as_bool().unwrap());
                if bad || k == 5 { all_good = false; }
                let first: u8 = if bad { 0x40 } else { match n { 0 => 0xD0, 1 => 0xE0, _ => 0x40 } };
                bytes.push(first);
                match k { 1 => bytes.push(n as u8), 2 => { bytes.push(0x80 | n as u8); bytes.push(0); } _ => { bytes.extend_from_slice(&[0xFF, 0xFF, 0xFF, 0xFF, 0x7F]); } }
                if k != 5 { match n { 0 => {}, 1 => bytes.push(0), _ => { bytes.extend_from_slice(&[0, 1]); bytes.push(if bad { 0xFF } else { 0 }); } } }
            }
            let take = c["take"].as_u64().unwrap() as usize;
            let complete = take == bytes.len();
            bytes.truncate(take);
            let max = c["max"].as_u64().unwrap() as u32;
            let cuts: Vec<usize> = c["cuts"].as_array().unwrap().iter().map(|x| x.as_u64().unwrap() as usize).collect();
            let fed: usize = cuts.iter().sum();
            let o = decode_chunked(&bytes[..fed], &cuts, true, max);
            let want_err = c["verdict"].as_str().unwrap() != "ok";
            let want_packets = c["packets"].as_u64().unwrap() as usize;
            let mut what = String::new();
            if o.panicked { what = "panic".into(); }
            else if want_err != !o.error.is_empty() { what = format!("verdict: specification {} / code '{}'", c["verdict"], o.error); }
            else if want_packets != o.packets.len() { what = format!("packets: specification {} / code {}", want_packets, o.packets.len()); }
            else if want_err {
                let at = c["errAt"].as_u64().unwrap() as usize;
                if at > 0 { let mut acc = 0; let mut idx = 0; for (i, s) in cuts.iter().enumerate() { acc += s; if acc >= at { idx = i; break; } } if o.error_chunk != Some(idx) { what = format!("error raised in chunk {:?}, specification says chunk {}", o.error_chunk, idx); } }
            }
            if !what.is_empty() && framing_drift.len() < 20 { framing_drift.push(format!("{} on {}", what, line)); }
            tr.emit("Frm", vec![("conform", json!(what.is_empty() as u8)), ("verdict", c["verdict"].clone()), ("packets", json!(want_packets)), ("cuts", json!(cuts.len()))]);
            // and the chunking property on the same stream, over all the harness's chunkings
            let exp: Option<Vec<Packet>> = if all_good && complete && max == 0 { let fr = rc::frame(&bytes); Some(fr.frames.iter().filter_map(|f| rc::decode(f.0, &f.1, true).ok()).collect()) } else { None };
            let mut fields = run_inbound(&bytes, true, exp.as_deref(), &mut rng, 64);
            fields.insert(0, ("class", json!("framing"))); fields.insert(0, ("legal", json!(exp.is_some() as u8))); fields.insert(0, ("label", json!("DecoderFraming behaviour")));
            fields.insert(0, ("v5", json!(1))); fields.insert(0, ("type", json!("FRAMES"))); fields.insert(0, ("dir", json!("in")));
            tr.emit("Dec", fields);
            n_framing += 1;
        }
    }

    // topic names and filters enumerated from Validation.tla, put to the crate's validators
    let mut n_filters = 0u64;
    if let Some(path) = arg(&args, "--filters") {
        let f = std::fs::File::open(&path).expect("filters file");
        for line in std::io::BufReader::new(f).lines() {
            let line = line.unwrap();
            if line.trim().is_empty() { continue; }
            let c: Value = serde_json::from_str(&line).expect("filter json");
            let text: String = c["tokens"].as_array().unwrap().iter().map(|t| t.as_str().unwrap()).collect::<Vec<_>>().concat();
            let r = std::panic::catch_unwind(|| { let (v, sh, w) = gneiss_mqtt::verif::validate::topic_filter_properties(&text); (v, sh, w, gneiss_mqtt::verif::validate::is_valid_topic(&text)) });
            match r {
                Ok((valid, shared, wild, topic_ok)) => tr.emit("Flt", vec![("text", json!(text)), ("specTopic", json!(c["topicValid"].as_bool().unwrap() as u8)), ("specValid", json!(c["filterValid"].as_bool().unwrap() as u8)),
                    ("specShared", json!(c["shared"].as_bool().unwrap() as u8)), ("specWild", json!(c["wild"].as_bool().unwrap() as u8)),
                    ("codeTopic", json!(topic_ok as u8)), ("codeValid", json!(valid as u8)), ("codeShared", json!((valid && shared) as u8)), ("codeWild", json!((valid && wild) as u8))]),
                Err(_) => tr.emit("Panic", vec![("where", json!("topic validation")), ("text", json!(text))]),
            }
            n_filters += 1;
        }
    }

    // streams of several packets (framing across packet boundaries under every chunking)
    let mut n_streams = 0u64;
    if legal_in.len() >= 2 {
        for _ in 0..(random_n / 4).max(40) {
            let k = rng.gen_range(2..5);
            let v5 = rng.gen_bool(0.7);
            let pool: Vec<&(Vec<u8>, bool, Packet)> = legal_in.iter().filter(|x| x.1 == v5 && x.0.len() <= 60).collect();
            if pool.len() < 2 { continue; }
            let mut bytes = Vec::new(); let mut exp = Vec::new();
            for _ in 0..k { let c = pool.choose(&mut rng).unwrap(); bytes.extend_from_slice(&c.0); exp.push(c.2.clone()); }
            let mut fields = run_inbound(&bytes, v5, Some(&exp), &mut rng, 150);
            fields.insert(0, ("class", json!("legal"))); fields.insert(0, ("legal", json!(1))); fields.insert(0, ("label", json!(format!("stream of {} packets", k))));
            fields.insert(0, ("v5", json!(v5 as u8))); fields.insert(0, ("type", json!("STREAM"))); fields.insert(0, ("dir", json!("in")));
            tr.emit("Dec", fields);
            n_streams += 1;
        }
    }

    // byte-level mutations of legal packets and random byte strings: no panic, same verdict for every chunking
    let mut n_mut = 0u64;
    for i in 0..mutate_n {
        let (mut bytes, v5) = if !legal_in.is_empty() && i % 5 != 4 { let c = legal_in.choose(&mut rng).unwrap(); (c.0.clone(), c.1) } else { ((0..rng.gen_range(1..40)).map(|_| rng.gen()).collect(), rng.gen_bool(0.5)) };
        for _ in 0..rng.gen_range(1..4) {
            if bytes.is_empty() { break; }
            let at = rng.gen_range(0..bytes.len());
            match rng.gen_range(0..5) { 0 => bytes[at] = rng.gen(), 1 => bytes[at] ^= 1 << rng.gen_range(0..8), 2 => { bytes.truncate(at.max(1)); } 3 => { bytes.insert(at, rng.gen()); } _ => { let b = bytes[at]; bytes.insert(at, b); } }
        }
        let mut fields = run_inbound(&bytes, v5, None, &mut rng, 80);
        fields.insert(0, ("class", json!("mutated"))); fields.insert(0, ("legal", json!(0))); fields.insert(0, ("label", json!(format!("mutation {}", i))));
        fields.insert(0, ("v5", json!(v5 as u8))); fields.insert(0, ("type", json!("MUTATED"))); fields.insert(0, ("dir", json!("in")));
        tr.emit("Dec", fields);
        n_mut += 1;
    }

    tr.write_to(&out).expect("write trace");
    let mut so = std::io::stdout();
    writeln!(so, "{}", json!({"cases": n_cases, "streams": n_streams, "mutations": n_mut, "events": tr.lines.len(), "reference_disagreements": ref_disagreements, "inexpressible": inexpressible, "framing": n_framing, "framing_drift": framing_drift, "filters": n_filters, "capacity_sequences_from_tlc": extra_caps.len()})).unwrap();
}
