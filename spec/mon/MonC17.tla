------------------------------- MODULE MonC17 -------------------------------
(* C17 - topic aliases never make either side reconstruct a wrong topic.  Outbound: the monitor
   is the server's alias table.  Inbound: it is the client's obligations towards the application. *)
EXTENDS MonBase

Init0 == [run |-> 0, skip |-> FALSE, errs |-> <<>>,
          ver |-> 5, tamIn |-> 0,
          tam |-> 0,             \* Topic Alias Maximum of the current connection's CONNACK
          topics |-> EmptyMap,   \* op -> topic the application supplied
          out |-> EmptyMap,      \* server-side table: alias -> topic
          inn |-> EmptyMap,      \* client-side table: alias -> topic
          expect |-> [set |-> FALSE]]

OnTxPublish(m, e) ==
    LET bound == e.alias # 0 /\ Has(m.out, e.alias)
        topic == IF e.topic # "" THEN e.topic ELSE IF bound THEN m.out[e.alias] ELSE ""
        m2 == IF e.alias # 0 /\ e.topic # "" THEN [m EXCEPT !.out = Put(@, e.alias, e.topic)] ELSE m
    IN IF e.alias # 0 /\ m.ver # 5 THEN Breach(m, e, "alias-under-311")
       ELSE IF e.alias # 0 /\ e.alias > m.tam THEN Breach(m, e, "alias-range")
       ELSE IF e.topic = "" /\ ~bound THEN Breach(m, e, "unbound-alias")
       ELSE IF e.op # 0 /\ Has(m.topics, e.op) /\ topic # m.topics[e.op] THEN Breach(m, e, "wrong-topic")
       ELSE m2

OnRxPublish(m, e) ==
    IF e.result # "ok" THEN [m EXCEPT !.expect = [set |-> FALSE]]
    ELSE IF e.alias = 0 THEN
             (IF e.topic = "" THEN Breach(m, e, "in-bad-alias-accepted") ELSE [m EXCEPT !.expect = [set |-> TRUE, topic |-> e.topic]])
    ELSE IF e.alias > m.tamIn THEN Breach(m, e, "in-bad-alias-accepted")
    ELSE IF e.topic # "" THEN [m EXCEPT !.inn = Put(@, e.alias, e.topic), !.expect = [set |-> TRUE, topic |-> e.topic]]
    ELSE IF ~Has(m.inn, e.alias) THEN Breach(m, e, "in-bad-alias-accepted")
    ELSE [m EXCEPT !.expect = [set |-> TRUE, topic |-> m.inn[e.alias]]]

Apply(m, e) ==
    IF e.ev = "Cfg" THEN [Init0 EXCEPT !.run = e.run, !.errs = m.errs, !.ver = e.ver, !.tamIn = e.tamIn]
    ELSE IF m.skip THEN m
    ELSE CASE e.ev = "Submit" /\ e.kind = "pub" -> [m EXCEPT !.topics = Put(@, e.op, e.topic)]
           [] e.ev = "Settings" -> [m EXCEPT !.tam = e.tam]
           [] e.ev = "Open" -> [m EXCEPT !.out = EmptyMap, !.inn = EmptyMap, !.tam = 0, !.expect = [set |-> FALSE]]
           [] e.ev = "Tx" /\ e.partial = 0 /\ e.type = "PUBLISH" -> OnTxPublish(m, e)
           [] e.ev = "Rx" /\ e.type = "PUBLISH" -> OnRxPublish(m, e)
           [] e.ev = "Surface" /\ e.type = "PUBLISH" /\ m.expect.set ->
                  IF e.topic # m.expect.topic THEN Breach(m, e, "in-wrong-topic") ELSE [m EXCEPT !.expect = [set |-> FALSE]]
           [] OTHER -> m
=============================================================================
