//! Puts builder configurations (enumerated by TLC from spec/AwsBuilder.tla, plus seeded random ones)
//! through the REAL gneiss-mqtt-aws builders and records, per configuration, what the user supplied
//! and what the builder would hand to the client (verif accessors).  Verdicts come from MonC20.

use gneiss_mqtt::client::config::*;
use gneiss_mqtt::mqtt::UserProperty;
use gneiss_mqtt::verif::{options, Val};
use gneiss_mqtt_aws::*;
use rand::prelude::*;
use rand::rngs::StdRng;
use serde_json::{json, Value};
use std::io::{BufRead, Write};

fn arg(args: &[String], name: &str) -> Option<String> { args.iter().position(|a| a == name).and_then(|i| args.get(i + 1).cloned()) }

fn bytes_of(v: &Value) -> Option<Vec<u8>> {
    let a = v.as_array()?;
    if a.len() == 1 && a[0].as_i64() == Some(-1) { return None; }
    Some(a.iter().map(|x| x.as_u64().unwrap() as u8).collect())
}
fn opt_json(b: &Option<Vec<u8>>) -> Value { match b { Some(x) => json!(x), None => json!([-1]) } }
fn text(b: &[u8]) -> String { String::from_utf8_lossy(b).to_string() }

fn hash31(s: &str) -> u64 { let mut h: u64 = 0xcbf29ce484222325; for b in s.bytes() { h ^= b as u64; h = h.wrapping_mul(0x100000001b3); } (h ^ (h >> 31)) & 0x7FFF_FFFF }

/// fingerprint of every connect option except client id, username and password (and the clean-start flag, which the rejoin policy decides)
fn connect_print(o: &ConnectOptions) -> u64 {
    let mut s = String::new();
    for (k, v) in options::connect_fields(o, false) { if k == "client_id" || k == "username" || k == "password" { continue; } s.push_str(&format!("{}={:?};", k, v)); }
    for (k, v) in options::connect_fields(o, true) { if k == "clean_start" { s.push_str(&format!("{}'={:?};", k, v)); } }
    hash31(&s)
}
fn connect_field(o: &ConnectOptions, name: &str) -> Option<Vec<u8>> {
    for (k, v) in options::connect_fields(o, false) { if k == name { return match v { Val::S(s) => Some(s.into_bytes()), Val::Bytes(b) => Some(b), _ => None }; } }
    None
}
/// fingerprint of every client option except the drain policy and the retry limit
fn client_print(o: &MqttClientOptions) -> u64 {
    let mut s = String::new();
    for (k, v) in options::client_fields(o) { if k == "post_reconnect_queue_drain_policy" || k == "max_interrupted_retries" { continue; } s.push_str(&format!("{}={};", k, v)); }
    hash31(&s)
}
fn client_field(o: &MqttClientOptions, name: &str) -> String { options::client_fields(o).into_iter().find(|(k, _)| *k == name).map(|(_, v)| v).unwrap_or_default() }

fn run_case(cfg: &Value, src: &str, seq: &mut u64, out: &mut Vec<String>) {
    let in_cid = bytes_of(&cfg["inCid"]);
    let in_user = bytes_of(&cfg["inUser"]);
    let in_pass = bytes_of(&cfg["inPass"]);
    let ic = cfg["inConnect"].as_u64().unwrap_or(0);
    let mode = cfg["inMode"].as_u64().unwrap();
    let drain = cfg["inDrain"].as_str().unwrap();
    let retries = cfg["inRetries"].as_i64().unwrap();
    let auth = cfg["auth"].as_str().unwrap();
    let authorizer = bytes_of(&cfg["authorizer"]);
    let signature = bytes_of(&cfg["signature"]).unwrap_or_default();
    let token_key = bytes_of(&cfg["tokenKey"]).unwrap_or_default();
    let token_value = bytes_of(&cfg["tokenValue"]).unwrap_or_default();

    let result = std::panic::catch_unwind(|| {
        // user connect options
        let mut cb = ConnectOptions::builder();
        let mut any_connect = false;
        if let Some(c) = &in_cid { cb.with_client_id(&text(c)); any_connect = true; }
        if ic != 0 {
            cb.with_keep_alive_interval_seconds(Some(77)).with_session_expiry_interval_seconds(99).with_receive_maximum(9).with_rejoin_session_policy(RejoinSessionPolicy::Always)
              .with_user_properties(vec![UserProperty::new("k".to_string(), "v".to_string())]).with_topic_alias_maximum(3).with_request_problem_information(true);
            any_connect = true;
        }
        if auth == "mtls" {
            if let Some(u) = &in_user { cb.with_username(&text(u)); any_connect = true; }
            if let Some(p) = &in_pass { cb.with_password(p); any_connect = true; }
        }
        let user_connect = cb.build();
        // user client options
        let mut mb = MqttClientOptions::builder();
        let plain_client = mode == 5 && drain == "unset" && retries < 0 && ic == 0;
        if !plain_client { mb.with_connect_timeout(std::time::Duration::from_millis(1234)).with_offline_queue_policy(OfflineQueuePolicy::PreserveQos1PlusPublishes).with_ping_timeout(std::time::Duration::from_millis(4321)); }
        mb.with_protocol_mode(if mode == 5 { ProtocolMode::Mqtt5 } else { ProtocolMode::Mqtt311 });
        match drain { "None" => { mb.with_post_reconnect_queue_drain_policy(PostReconnectQueueDrainPolicy::None); } "OneAtATime" => { mb.with_post_reconnect_queue_drain_policy(PostReconnectQueueDrainPolicy::OneAtATime); } _ => {} }
        if retries >= 0 { mb.with_max_interrupted_retries(retries as u32); }
        let user_client = mb.build();

        let mut builder = if auth == "mtls" {
            AwsClientBuilder::new_direct_with_mtls_from_memory("example-ats.iot.invalid", b"", b"", None).expect("builder")
        } else {
            let az = authorizer.as_ref().map(|a| text(a));
            let mut ab = if auth == "signed" { AwsCustomAuthOptions::builder_signed(az.as_deref(), &text(&signature), &text(&token_key), &text(&token_value)) } else { AwsCustomAuthOptions::builder_unsigned(az.as_deref()) };
            if let Some(u) = &in_user { ab.with_username(&text(u)); }
            if let Some(p) = &in_pass { ab.with_password(p); }
            AwsClientBuilder::new_direct_with_custom_auth("example-ats.iot.invalid", ab.build(), None).expect("builder")
        };
        if any_connect { builder = builder.with_connect_options(user_connect.clone()); }
        if !(plain_client && mode == 5) { builder = builder.with_client_options(user_client.clone()); }
        let fc = gneiss_mqtt_aws::verif::final_connect_options(&builder);
        let fo = gneiss_mqtt_aws::verif::final_client_options(&builder);
        let drain_out = match client_field(&fo, "post_reconnect_queue_drain_policy").as_str() { "None" => "unset", "Some(None)" => "None", _ => "OneAtATime" }.to_string();
        let retries_out: i64 = { let s = client_field(&fo, "max_interrupted_retries"); if s == "None" { -1 } else { s.trim_start_matches("Some(").trim_end_matches(')').parse().unwrap_or(-2) } };
        // the default (absent) options on the user's side of the comparison when none were supplied
        let base_connect = if any_connect { user_connect } else { ConnectOptions::builder().build() };
        let base_client = if !(plain_client && mode == 5) { user_client } else { MqttClientOptions::builder().build() };
        (connect_print(&base_connect), client_print(&base_client), connect_field(&fc, "client_id"), connect_print(&fc), client_print(&fo), connect_field(&fc, "username"), connect_field(&fc, "password"), drain_out, retries_out)
    });
    *seq += 1;
    match result {
        Ok((in_connect, in_client, out_cid, out_connect, out_client, out_user, out_pass, out_drain, out_retries)) => {
            // a generated client id is reported by its length only (it is random); the monitor needs "non-empty" and "equal to the user's"
            let out_cid_json = match (&in_cid, &out_cid) { (Some(i), Some(o)) if i == o => json!(o), (_, Some(o)) => json!(o), (_, None) => json!([-1]) };
            let e = json!({"ev": "Aws", "run": 1, "seq": *seq, "src": src,
                "inCid": opt_json(&in_cid), "inConnect": in_connect, "inClient": in_client, "inMode": mode, "inDrain": drain, "inRetries": retries, "auth": auth,
                "authorizer": opt_json(&authorizer), "signature": signature, "rawSignature": cfg["rawSignature"], "tokenKey": token_key, "tokenValue": token_value,
                "inUser": opt_json(&in_user), "inPass": opt_json(&in_pass),
                "outCid": out_cid_json, "outConnect": out_connect, "outClient": out_client, "outUser": opt_json(&out_user), "outPass": opt_json(&out_pass), "outDrain": out_drain, "outRetries": out_retries});
            out.push(e.to_string());
        }
        Err(_) => out.push(json!({"ev": "Panic", "run": 1, "seq": *seq, "src": src}).to_string()),
    }
}

fn main() {
    if std::env::var("VERIF_SHOW_PANICS").is_err() { std::panic::set_hook(Box::new(|_| {})); }
    let args: Vec<String> = std::env::args().collect();
    let out_path = arg(&args, "--out").unwrap_or_else(|| "aws.ndjson".into());
    let seed: u64 = arg(&args, "--seed").and_then(|s| s.parse().ok()).unwrap_or(1);
    let random_n: usize = arg(&args, "--random").and_then(|s| s.parse().ok()).unwrap_or(0);
    let mut lines: Vec<String> = vec![json!({"ev": "Cfg", "run": 1, "seq": 0, "src": "aws"}).to_string()];
    let mut seq = 0u64; let mut n_cases = 0u64;
    if let Some(path) = arg(&args, "--cases") {
        let f = std::fs::File::open(&path).expect("cases");
        for line in std::io::BufReader::new(f).lines() {
            let line = line.unwrap();
            if line.trim().is_empty() { continue; }
            let c: Value = serde_json::from_str(&line).expect("case json");
            run_case(&c["cfg"], "S1", &mut seq, &mut lines);
            n_cases += 1;
        }
    }
    // seeded random configurations: arbitrary base64 signatures (raw or pre-encoded with either hex case), names, tokens
    let mut rng = StdRng::seed_from_u64(seed);
    let b64: Vec<u8> = b"ABCDEFGHIJKLMNOPQRSTUVWXYZabcdefghijklmnopqrstuvwxyz0123456789+/".to_vec();
    let name: Vec<u8> = b"abcdefghijklmnopqrstuvwxyzABCXYZ0123456789-_.".to_vec();
    for _ in 0..random_n {
        let n = rng.gen_range(1..90);
        let mut raw: Vec<u8> = (0..n).map(|_| *b64.choose(&mut rng).unwrap()).collect();
        for _ in 0..rng.gen_range(0..3) { raw.push(b'='); }
        let given: Vec<u8> = match rng.gen_range(0..3) { 0 => raw.clone(), 1 => urlencoding::encode(&text(&raw)).to_string().into_bytes(), _ => { let up = urlencoding::encode(&text(&raw)).to_string().into_bytes(); let mut lo = up.clone(); for i in 0..lo.len() { if lo[i] == b'%' { lo[i + 1] = lo[i + 1].to_ascii_lowercase(); lo[i + 2] = lo[i + 2].to_ascii_lowercase(); } } lo } };
        // a "pre-encoded" form is only recognisable when it contains a '%': otherwise it is the raw text itself
        let raw_for: Vec<u8> = if given.contains(&b'%') { raw.clone() } else { given.clone() };
        let rs = |rng: &mut StdRng, lo: usize, hi: usize| -> Vec<u8> { (0..rng.gen_range(lo..hi)).map(|_| *name.choose(rng).unwrap()).collect() };
        let auth = ["mtls", "unsigned", "signed"][rng.gen_range(0..3)];
        let drain_in = ["unset", "None", "OneAtATime"][rng.gen_range(0..3)];
        let retries_in = [-1i64, 0, 1, 2, 7][rng.gen_range(0..5)];
        let cid_in = match rng.gen_range(0..3) { 0 => json!([-1]), 1 => json!([]), _ => json!(rs(&mut rng, 1, 24)) };
        let ic_in = if rng.gen_bool(0.5) { 5 } else { 0 };
        let mode_in = if rng.gen_bool(0.5) { 5 } else { 311 };
        let az_in = if auth != "mtls" && rng.gen_bool(0.7) { json!(rs(&mut rng, 1, 20)) } else { json!([-1]) };
        let user_in = if rng.gen_bool(0.5) { json!(rs(&mut rng, 1, 16)) } else { json!([-1]) };
        let pass_in = if rng.gen_bool(0.5) { let n = rng.gen_range(0..12); json!((0..n).map(|_| rng.gen::<u8>()).collect::<Vec<u8>>()) } else { json!([-1]) };
        let tk = rs(&mut rng, 1, 12); let tv = rs(&mut rng, 1, 30);
        let cfg = json!({"inCid": cid_in, "inConnect": ic_in, "inMode": mode_in, "inDrain": drain_in, "inRetries": retries_in, "auth": auth, "authorizer": az_in,
            "signature": if auth == "signed" { json!(given) } else { json!([]) }, "rawSignature": if auth == "signed" { json!(raw_for) } else { json!([]) },
            "tokenKey": tk, "tokenValue": tv, "inUser": user_in, "inPass": pass_in});
        run_case(&cfg, "S2", &mut seq, &mut lines);
    }
    let mut f = std::io::BufWriter::new(std::fs::File::create(&out_path).expect("out"));
    for l in &lines { writeln!(f, "{}", l).unwrap(); }
    println!("{}", json!({"cases": n_cases, "random": random_n, "events": lines.len()}));
}
