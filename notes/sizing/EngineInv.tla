---- MODULE EngineInv ----
(* NOTE: kept only as the round-0 sizing experiment referenced by DESIGN.md section 6.
   It is not part of the verification machinery and is superseded by spec/Engine.tla. *)
(* Throw-away SIZING experiment for DESIGN.md section 6: the core of ProtocolState
   (queues, tables, partial encoding, close handling, session handling, acks) without timers,
   aliases, inbound publishes or adversarial acks. Not the specification. *)
EXTENDS Naturals, Sequences, FiniteSets, TLC
CONSTANTS MaxOps, MaxConns, PidMax, Budgets
VARIABLE s

Policies == {"All", "Ack", "Q1", "None"}
Passes(o, pol) == CASE pol = "All" -> TRUE
                    [] pol = "Ack" -> ~(o.k = "pub" /\ o.q = 0)
                    [] pol = "Q1"  -> o.k = "pub" /\ o.q > 0
                    [] OTHER -> FALSE
Size(o) == IF o.rel THEN 1 ELSE 2
Put(f, n, r) == [i \in DOMAIN f \cup {n} |-> IF i = n THEN r ELSE f[i]]
Del(f, n) == [i \in DOMAIN f \ {n} |-> f[i]]
SeqDel(q, n) == SelectSeq(q, LAMBDA x : x # n)
RECURSIVE SortedSeq(_)
SortedSeq(S) == IF S = {} THEN <<>> ELSE LET m == CHOOSE x \in S : \A y \in S : x <= y IN <<m>> \o SortedSeq(S \ {m})
Range(q) == {q[i] : i \in DOMAIN q}
RECURSIVE Insert(_, _)
Insert(q, x) == IF q = <<>> THEN <<x>> ELSE IF x <= Head(q) THEN <<x>> \o q ELSE <<Head(q)>> \o Insert(Tail(q), x)
RECURSIVE Sort(_)
Sort(q) == IF q = <<>> THEN <<>> ELSE Insert(Sort(Tail(q)), Head(q))

Init == \E pol \in Policies, rm \in {1, 3}, drain \in {FALSE} :
  s = [st |-> "Disc", ops |-> <<>>, userQ |-> <<>>, resubQ |-> <<>>, hpQ |-> <<>>, cur |-> 0, left |-> 0,
       pwc |-> FALSE, pwcOps |-> <<>>, pendPub |-> {}, pendNon |-> {}, nextPid |-> 1, nextOp |-> 1,
       conns |-> 0, subs |-> 0, pol |-> pol, rm |-> rm, done |-> 0, lastFresh |-> 0, lastRetx |-> 0, ordBad |-> FALSE]

Complete(t, id) == [t EXCEPT !.ops = Del(@, id), !.pendPub = @ \ {id}, !.pendNon = @ \ {id}, !.done = @ + (IF t.ops[id].k = "connect" THEN 0 ELSE 1)]
InUse(t) == {t.ops[i].pid : i \in DOMAIN t.ops} \ {0}

Submit(k, q) ==
  /\ s.subs < MaxOps
  /\ LET o == [k |-> k, q |-> q, pid |-> 0, dup |-> FALSE, rel |-> FALSE, tx |-> 0, txc |-> 0, rec |-> FALSE, relc |-> 0, bad |-> FALSE]
         n == s.nextOp
         t == [s EXCEPT !.subs = @ + 1, !.nextOp = @ + 1]
     IN IF s.st # "Conn" /\ ~Passes(o, s.pol) THEN s' = [t EXCEPT !.done = @ + 1]
        ELSE s' = [t EXCEPT !.ops = Put(@, n, o), !.userQ = Append(@, n)]

Open ==
  /\ s.st = "Disc" /\ s.conns < MaxConns
  /\ LET n == s.nextOp IN
     s' = [s EXCEPT !.lastFresh = 0, !.lastRetx = 0, !.st = "PendConnack", !.cur = 0, !.left = 0, !.pwc = FALSE, !.conns = @ + 1, !.nextOp = @ + 1,
                    !.ops = Put(@, n, [k |-> "connect", q |-> 0, pid |-> 0, dup |-> FALSE, rel |-> FALSE, tx |-> 0, txc |-> 0, rec |-> FALSE, relc |-> 0, bad |-> FALSE]),
                    !.hpQ = <<n>> \o @]

FailAll(t, ids) == LET RECURSIVE F(_, _)
                       F(u, S) == IF S = {} THEN u ELSE LET x == CHOOSE y \in S : TRUE IN F(Complete(u, x), S \ {x})
                   IN F(t, ids)

Close ==
  /\ s.st # "Disc"
  /\ LET t0 == [s EXCEPT !.st = "Disc"]
         \* current operation
         t1 == IF t0.cur = 0 \/ t0.cur \notin DOMAIN t0.ops THEN [t0 EXCEPT !.cur = 0]
               ELSE LET o == t0.ops[t0.cur]
                        r == CASE o.k = "sub" -> IF Passes(o, t0.pol) THEN [t0 EXCEPT !.userQ = <<t0.cur>> \o @] ELSE Complete(t0, t0.cur)
                               [] o.k = "pub" /\ o.dup -> [t0 EXCEPT !.resubQ = <<t0.cur>> \o @]
                               [] o.k = "pub" /\ o.q = 2 /\ o.rel -> [t0 EXCEPT !.hpQ = <<t0.cur>> \o @]
                               [] o.k = "pub" -> IF Passes(o, t0.pol) THEN [t0 EXCEPT !.userQ = <<t0.cur>> \o @] ELSE Complete(t0, t0.cur)
                               [] OTHER -> Complete(t0, t0.cur)
                    IN [r EXCEPT !.cur = 0]
         \* high priority: fail everything that is not a pubrel carrier; carriers are dropped from the queue
         hpFail == {x \in Range(t1.hpQ) : x \in DOMAIN t1.ops /\ ~t1.ops[x].rel}
         t2 == [FailAll(t1, hpFail) EXCEPT !.hpQ = <<>>]
         \* unflushed operations by policy
         keep == SelectSeq(t2.pwcOps, LAMBDA x : x \in DOMAIN t2.ops /\ Passes(t2.ops[x], t2.pol))
         drop == {x \in Range(t2.pwcOps) : x \in DOMAIN t2.ops /\ ~Passes(t2.ops[x], t2.pol)}
         t3 == [FailAll(t2, drop) EXCEPT !.pwcOps = <<>>, !.userQ = @ \o keep]
         \* publish table -> resubmit (dup), sub table -> user front; HashMap order replaced by sorted order (sizing only)
         t4 == [t3 EXCEPT !.resubQ = @ \o SortedSeq(t3.pendPub),
                          !.ops = [i \in DOMAIN @ |-> IF i \in t3.pendPub THEN [@[i] EXCEPT !.dup = TRUE] ELSE @[i]],
                          !.userQ = SortedSeq(t3.pendNon) \o @, !.pendPub = {}, !.pendNon = {}]
         rej == {x \in Range(t4.userQ) : ~Passes(t4.ops[x], t4.pol)}
         t5 == [FailAll(t4, rej) EXCEPT !.userQ = SelectSeq(t4.userQ, LAMBDA x : x \notin rej)]
         t6 == [t5 EXCEPT !.ops = [i \in DOMAIN @ |-> [@[i] EXCEPT !.txc = 0, !.relc = 0]]]
     IN s' = t6

RECURSIVE Run(_, _, _)
Run(t, b, wrote) ==
  IF t.st \notin {"PendConnack", "Conn"} THEN [t EXCEPT !.pwc = @ \/ wrote]
  ELSE IF t.cur = 0 THEN
     \* dequeue
     LET hpOnly == t.st = "PendConnack"
         pick == IF t.pwc THEN 0
                 ELSE IF t.hpQ # <<>> THEN Head(t.hpQ)
                 ELSE IF hpOnly THEN 0
                 ELSE IF t.resubQ # <<>> THEN (IF Cardinality(t.pendPub) >= t.rm /\ t.ops[Head(t.resubQ)].q > 0 THEN 0 ELSE Head(t.resubQ))
                 ELSE IF t.userQ # <<>> THEN (IF Cardinality(t.pendPub) >= t.rm /\ t.ops[Head(t.userQ)].k = "pub" /\ t.ops[Head(t.userQ)].q > 0 THEN 0 ELSE Head(t.userQ))
                 ELSE 0
     IN IF pick = 0 THEN [t EXCEPT !.pwc = @ \/ wrote]
        ELSE LET u == IF t.hpQ # <<>> THEN [t EXCEPT !.hpQ = Tail(@)]
                      ELSE IF t.resubQ # <<>> THEN [t EXCEPT !.resubQ = Tail(@)]
                      ELSE [t EXCEPT !.userQ = Tail(@)]
             IN IF pick \notin DOMAIN u.ops THEN Run(u, b, wrote)
                ELSE LET o == u.ops[pick]
                         needs == o.pid = 0 /\ (o.k = "sub" \/ (o.k = "pub" /\ o.q > 0))
                         free == {p \in 1..PidMax : p \notin InUse(u)}
                         \* rotating allocation from nextPid
                         cand == IF free = {} THEN 0 ELSE
                                   LET ge == {p \in free : p >= u.nextPid} IN
                                   IF ge # {} THEN CHOOSE p \in ge : \A r \in ge : p <= r ELSE CHOOSE p \in free : \A r \in free : p <= r
                     IN IF needs /\ cand = 0 THEN [u EXCEPT !.st = "Halted", !.pwc = @ \/ wrote]
                        ELSE LET v == IF needs THEN [u EXCEPT !.ops[pick].pid = cand, !.nextPid = IF cand = PidMax THEN 1 ELSE cand + 1] ELSE u
                             IN Run([v EXCEPT !.cur = pick, !.left = Size(o)], b, wrote)
  ELSE IF b = 0 THEN [t EXCEPT !.pwc = @ \/ wrote]
  ELSE IF t.left > 1 THEN Run([t EXCEPT !.left = @ - 1], b - 1, TRUE)
  ELSE \* fully written
     LET id == t.cur
         o == t.ops[id]
         Cap(n) == IF n >= 2 THEN 2 ELSE n
         u0 == [t EXCEPT !.cur = 0, !.left = 0]
         u == IF o.k = "pub" /\ o.q > 0 /\ ~o.rel
                 THEN [u0 EXCEPT !.ops[id].tx = Cap(@ + 1), !.ops[id].txc = Cap(@ + 1), !.ops[id].bad = @ \/ (o.dup # (o.tx > 0)) \/ o.rec]
              ELSE IF o.k = "pub" /\ o.rel THEN [u0 EXCEPT !.ops[id].relc = Cap(@ + 1)]
              ELSE u0
         isUser == o.k \in {"pub", "sub"} /\ ~o.rel
         retx == o.k = "pub" /\ o.dup
         w == IF ~isUser THEN u
              ELSE IF retx THEN [u EXCEPT !.lastRetx = id, !.ordBad = @ \/ id <= u.lastRetx \/ u.lastFresh # 0]
              ELSE [u EXCEPT !.lastFresh = id, !.ordBad = @ \/ id <= u.lastFresh]
         v == CASE o.k = "sub" -> [w EXCEPT !.pendNon = @ \cup {id}]
                [] o.k = "pub" /\ o.q > 0 -> [w EXCEPT !.pendPub = @ \cup {id}]
                [] OTHER -> [w EXCEPT !.pwcOps = Append(@, id)]
     IN Run(v, b - 1, TRUE)

Service(b) == /\ s.st \in {"PendConnack", "Conn"}
              /\ s' = Run(s, b, FALSE)
              /\ s' # s

WriteDone == /\ s.pwc /\ s.st \in {"PendConnack", "Conn"}
             /\ s' = [FailAll(s, Range(s.pwcOps) \cap DOMAIN s.ops) EXCEPT !.pwc = FALSE, !.pwcOps = <<>>]

Connack(sp) ==
  /\ s.st = "PendConnack" /\ s.cur = 0 /\ ~s.pwc /\ s.hpQ = <<>>
  /\ LET t0 == [s EXCEPT !.st = "Conn"]
         t1 == IF sp THEN t0
               ELSE LET rej == {x \in Range(t0.resubQ) : ~Passes(t0.ops[x], t0.pol)}
                        keep == SelectSeq(t0.resubQ, LAMBDA x : x \notin rej)
                    IN [FailAll(t0, rej) EXCEPT !.resubQ = <<>>, !.userQ = @ \o keep]
         t2 == [t1 EXCEPT !.ops = [i \in DOMAIN @ |-> IF i \in Range(t1.userQ) THEN [@[i] EXCEPT !.pid = 0, !.rel = FALSE, !.dup = IF sp THEN @ ELSE FALSE, !.tx = IF sp THEN @ ELSE 0, !.rec = IF sp THEN @ ELSE FALSE] ELSE @[i]],
                          !.userQ = Sort(@), !.resubQ = Sort(@)]
     IN s' = t2

Ack(id) ==
  /\ s.st = "Conn"
  /\ \/ /\ id \in s.pendNon /\ s' = Complete(s, id)
     \/ /\ id \in s.pendPub /\ s.ops[id].q = 1 /\ s' = Complete(s, id)
     \/ /\ id \in s.pendPub /\ s.ops[id].q = 2 /\ ~s.ops[id].rel /\ s' = [s EXCEPT !.ops[id].rel = TRUE, !.ops[id].rec = TRUE, !.hpQ = Append(@, id)]
     \/ /\ id \in s.pendPub /\ s.ops[id].q = 2 /\ s.ops[id].rel /\ s.cur # id /\ id \notin Range(s.hpQ) /\ s' = Complete(s, id)

Next == \/ \E k \in {"pub"}, q \in 0..2 : Submit(k, q)
        \/ Submit("sub", 0)
        \/ Open \/ Close
        \/ \E b \in Budgets : Service(b)
        \/ WriteDone
        \/ \E sp \in BOOLEAN : Connack(sp)
        \/ \E id \in DOMAIN s.ops : Ack(id)
Spec == Init /\ [][Next]_s

\* sanity invariants
NoDupQueueEntries == \A q \in {s.userQ, s.resubQ, s.hpQ} : Cardinality(Range(q)) = Len(q)
Tracked == \A i \in DOMAIN s.ops : s.ops[i].k = "connect" \/ i = s.cur \/ i \in Range(s.userQ) \cup Range(s.resubQ) \cup Range(s.hpQ) \cup Range(s.pwcOps) \cup s.pendPub \cup s.pendNon
C04NoRepeat == \A i \in DOMAIN s.ops : s.ops[i].txc <= 1 /\ s.ops[i].relc <= 1
C04DupFlag == \A i \in DOMAIN s.ops : ~s.ops[i].bad

C06Unique == \A i, j \in DOMAIN s.ops : (i # j /\ s.ops[i].pid # 0) => s.ops[i].pid # s.ops[j].pid
C09RecvMax == Cardinality(s.pendPub) <= s.rm
C10Order == ~s.ordBad

\* C08: the reported next service time (transcribed) against work that is due (written independently)
HasPendingAck == s.pendPub # {} \/ s.pendNon # {}
HeadBlocked == LET h == IF s.resubQ # <<>> THEN Head(s.resubQ) ELSE IF s.userQ # <<>> THEN Head(s.userQ) ELSE 0
               IN h # 0 /\ h \in DOMAIN s.ops /\ Cardinality(s.pendPub) >= s.rm /\ s.ops[h].k = "pub" /\ s.ops[h].q > 0
NextServiceNow ==      \* get_next_service_timepoint_* without timers: TRUE = "now", FALSE = "never"
  /\ s.st \in {"PendConnack", "Conn"} /\ ~s.pwc
  /\ \/ s.hpQ # <<>>
     \/ s.st = "Conn" /\ ~HeadBlocked /\ (s.resubQ # <<>> \/ s.userQ # <<>>)
WorkDue ==
  /\ s.st \in {"PendConnack", "Conn"} /\ ~s.pwc
  /\ \/ s.cur # 0                                                   \* encoding can continue
     \/ s.hpQ # <<>>
     \/ s.st = "Conn" /\ ~HeadBlocked /\ (s.resubQ # <<>> \/ s.userQ # <<>>)
C08NoStrandedWork == WorkDue => NextServiceNow
====
