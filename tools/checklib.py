"""Shared machinery of ./check: builds the harness from /repo's working tree, runs TLC (model
checking of the implementation-shaped specifications and trace validation of recorded
executions), matches breaches against known_findings.json, writes evidence."""
import collections, json, os, re, subprocess, sys, time

ROOT = os.path.dirname(os.path.dirname(os.path.abspath(__file__)))
HARNESS = os.path.join(ROOT, "harness")
SPEC = os.path.join(ROOT, "spec")
WORK = os.path.join(ROOT, "work")
BIN = os.path.join(HARNESS, "target", "release")
TLC_WORKERS = int(os.environ.get("VERIF_TLC_WORKERS", "12"))

ENGINE_PROPS = ["C01", "C02", "C04", "C05", "C06", "C07", "C08", "C09", "C10", "C11", "C14", "C15", "C16", "C17", "C18"]


class ToolError(Exception):
    pass


def sh(cmd, cwd=None, env=None, timeout=None, out=None):
    e = dict(os.environ)
    e.update({"CARGO_NET_OFFLINE": "true"})
    if env:
        e.update(env)
    t0 = time.time()
    if out:
        with open(out, "w") as f:
            p = subprocess.run(cmd, cwd=cwd, env=e, stdout=f, stderr=subprocess.STDOUT, timeout=timeout)
        return p.returncode, "", time.time() - t0
    p = subprocess.run(cmd, cwd=cwd, env=e, stdout=subprocess.PIPE, stderr=subprocess.STDOUT, timeout=timeout, text=True)
    return p.returncode, p.stdout, time.time() - t0


def build_harness(log):
    """Rebuilds the harness (and with it gneiss-mqtt with the verif feature) from /repo's current tree."""
    rc, out, dt = sh(["cargo", "build", "--release", "--offline", "--quiet"], cwd=HARNESS, timeout=3000)
    log["harness_build_s"] = round(dt, 1)
    if rc != 0:
        sys.stdout.write(out[-6000:])
        raise ToolError("harness does not build against /repo's working tree")


# ------------------------------------------------------------------------------------------------
# TLC

def run_tlc(workdir, module_dir, module, cfg_text, env=None, workers=1, timeout=1800, extra=None, java_opts="-Xss1g"):
    os.makedirs(workdir, exist_ok=True)
    cfg = os.path.join(workdir, module + ".cfg")
    with open(cfg, "w") as f:
        f.write(cfg_text)
    out = os.path.join(workdir, module + ".out")
    e = {"JAVA_TOOL_OPTIONS": java_opts}
    if env:
        e.update(env)
    cmd = ["timeout", str(timeout), "tlc", "-workers", str(workers), "-noGenerateSpecTE", "-metadir", os.path.join(workdir, "meta"), "-cleanup",
           "-config", cfg] + (extra or []) + [module + ".tla"]
    try:
        rc, _, dt = sh(cmd, cwd=module_dir, env=e, out=out, timeout=timeout + 60)
    except subprocess.TimeoutExpired:
        raise ToolError("TLC timed out on " + module)
    text = open(out, errors="replace").read()
    res = {"rc": rc, "wall_s": round(dt, 1), "out": out, "text": text}
    m = re.search(r"(\d+) states generated, (\d+) distinct states found, (\d+) states left on queue", text)
    if m:
        res["generated"], res["distinct"], res["queue"] = int(m.group(1)), int(m.group(2)), int(m.group(3))
    m = re.search(r"The depth of the complete state graph search is (\d+)", text)
    if m:
        res["depth"] = int(m.group(1))
    res["ok"] = ("Model checking completed. No error has been found." in text)
    res["violated"] = re.findall(r"Error: Invariant (\S+) is violated", text) + re.findall(r"Error: Temporal properties were violated", text)
    if rc == 124:
        raise ToolError("TLC timed out on " + module)
    return res


def trace_check(trace, which, workdir):
    """Folds the monitors named in `which` over an ndjson trace with TLC; returns {monitor: [breach...]}."""
    cfg = "SPECIFICATION Spec\nCONSTANT Which = {%s}\nINVARIANT Verdict\nPOSTCONDITION Consumed\nCHECK_DEADLOCK FALSE\n" % ",".join('"%s"' % w for w in which)
    res = run_tlc(workdir, os.path.join(SPEC, "mon"), "TraceCheck", cfg, env={"TRACE": trace}, workers=1, timeout=3000, java_opts="-Xss1g -Xmx6g")
    m = re.search(r'<<"VERDICT", "(.*)">>', res["text"])
    if not m or not res["ok"]:
        sys.stdout.write(res["text"][-4000:])
        raise ToolError("trace validation did not complete")
    verdict = json.loads(m.group(1).encode().decode("unicode_escape"))
    return verdict, res


# ------------------------------------------------------------------------------------------------
# traces

def load_trace_index(trace):
    """run -> {seq -> event}, run -> src"""
    runs = collections.defaultdict(dict)
    src = {}
    with open(trace) as f:
        for line in f:
            e = json.loads(line)
            runs[e["run"]][e["seq"]] = e
            if e["ev"] == "Cfg":
                src[e["run"]] = e.get("src", "")
    return runs, src


def engine_run(args, workdir, name):
    os.makedirs(workdir, exist_ok=True)
    trace = os.path.join(workdir, name + ".ndjson")
    scripts = os.path.join(workdir, name + ".scripts")
    rc, out, dt = sh([os.path.join(BIN, "engine_run")] + args + ["--out", trace, "--scripts-out", scripts], cwd=workdir, timeout=3000)
    if rc != 0:
        sys.stdout.write(out[-3000:])
        raise ToolError("engine_run failed")
    stats = json.loads(out.strip().splitlines()[-1])
    stats["wall_s"] = round(dt, 1)
    return trace, scripts, stats


# ------------------------------------------------------------------------------------------------
# known findings

def load_known():
    path = os.path.join(ROOT, "known_findings.json")
    if not os.path.exists(path):
        return []
    return json.load(open(path))["findings"]


def match_known(known, pid, rule, event, src):
    """A breach is known only if a `known` entry names this property, this rule and a signature
    that the breaching event (or its run's source) satisfies.  `fixed` entries suppress nothing."""
    for k in known:
        if k.get("status") != "known" or k["property"] != pid or k["rule"] != rule:
            continue
        sig = k.get("match", {})
        ok = True
        for key, val in sig.items():
            if key == "src_prefix":
                ok = ok and src.startswith(val)
            else:
                ok = ok and event is not None and event.get(key) == val
        if ok:
            return k
    return None


# ------------------------------------------------------------------------------------------------
# evidence

def write_evidence(pid, tier, seed, coverage, assumptions, wall, violations, extra=None):
    os.makedirs(os.path.join(ROOT, "evidence"), exist_ok=True)
    ev = {"property_id": pid, "tier": tier, "seed": seed, "level": "model_checking", "coverage": coverage,
          "assumptions": assumptions, "wall_s": round(wall, 1), "violations": violations}
    if extra:
        ev.update(extra)
    with open(os.path.join(ROOT, "evidence", pid + ".json"), "w") as f:
        json.dump(ev, f, indent=1)
        f.write("\n")


def script_of_run(scripts_path, run):
    with open(scripts_path) as f:
        for i, line in enumerate(f, 1):
            if i == run:
                return json.loads(line)
    return None


def report(pid, breaches, trace, scripts_path, known, workdir):
    """breaches: list of {run, seq, rule}.  Prints KNOWN-FINDING / VIOLATION lines; returns (#violations, known seen)."""
    runs, src = load_trace_index(trace) if breaches else ({}, {})
    violations, seen = 0, []
    os.makedirs(os.path.join(WORK, "replay"), exist_ok=True)
    printed = set()
    for b in breaches:
        ev = runs.get(b["run"], {}).get(b["seq"])
        s = src.get(b["run"], "")
        k = match_known(known, pid, b["rule"], ev, s)
        if k:
            key = (k["rule"], json.dumps(k.get("match", {}), sort_keys=True))
            if key not in printed:
                printed.add(key)
                print("KNOWN-FINDING: property=%s %s" % (pid, k["what"]))
            seen.append(k["rule"])
            continue
        violations += 1
        path = os.path.join(WORK, "replay", "%s-%s-run%d.json" % (pid, b["rule"], b["run"]))
        with open(path, "w") as f:
            json.dump({"property": pid, "rule": b["rule"], "run": b["run"], "seq": b["seq"], "src": s, "event": ev,
                       "script": script_of_run(scripts_path, b["run"]) if scripts_path else None}, f)
        if violations <= 5:
            print("VIOLATION property=%s replay=%s   (rule %s, source %s)" % (pid, path, b["rule"], s))
    return violations, seen


# ------------------------------------------------------------------------------------------------
# engine properties

def engine_volume(tier):
    if tier == "thorough":
        return dict(scripted=3000, adversarial=3000, faithful=3000, length=80)
    return dict(scripted=250, adversarial=250, faithful=250, length=50)


def check_engine_property(pid, tier, seed):
    t0 = time.time()
    log = {}
    workdir = os.path.join(WORK, pid)
    build_harness(log)
    vol = engine_volume(tier)
    args = ["--regress", "--scripted", str(vol["scripted"]), "--adversarial", str(vol["adversarial"]), "--faithful", str(vol["faithful"]),
            "--len", str(vol["length"]), "--seed", str(seed)]
    if tier == "thorough" and pid in ("C06", "C01"):
        args += ["--wrap", "1"]
    trace, scripts, stats = engine_run(args, workdir, "s23")
    verdict, tlc = trace_check(trace, [pid], workdir)
    breaches = verdict["errs"][pid]
    known = load_known()
    violations, seen = report(pid, breaches, trace, scripts, known, workdir)
    samples = []
    with open(scripts) as f:
        for i, line in enumerate(f):
            if i in (0, 20, 400):
                s = json.loads(line)
                samples.append({"src": s["cfg"]["src"], "steps": s["steps"][:12]})
    coverage = {
        "states": tlc.get("distinct", 0), "transitions": tlc.get("generated", 0),
        "traces_validated_against_impl": stats["runs"], "samples": samples,
        "events_validated": verdict["events"], "scenario_sources": {"S3_regression": True, "S2_scripted": vol["scripted"], "S2_adversarial": vol["adversarial"], "S2_faithful": vol["faithful"]},
        "panics_observed": stats["panics"], "inapplicable_decisions": stats["inapplicable"],
        "breaches": len(breaches), "known_findings_seen": sorted(set(seen)), "exhaustive": False,
        "explanation": "TLC folded monitor Mon%s over %d recorded events of %d executions of the real engine" % (pid, verdict["events"], stats["runs"]),
    }
    write_evidence(pid, tier, seed, coverage,
                   ["the reference codec and reference broker of the harness (qualified against Codec.tla by the C02/C03 checks)",
                    "TLC and the TLA+ monitor MonBase/Mon%s as the judge" % pid,
                    "virtual clock: durations in ms; writes complete as scripted"],
                   time.time() - t0, violations, {"log": log})
    return 1 if violations else 0


def replay(pid, path):
    r = json.load(open(path))
    workdir = os.path.join(WORK, pid, "replay")
    os.makedirs(workdir, exist_ok=True)
    log = {}
    build_harness(log)
    sp = os.path.join(workdir, "in.scripts")
    with open(sp, "w") as f:
        f.write(json.dumps(r["script"]) + "\n")
    trace, scripts, stats = engine_run(["--scripts-in", sp], workdir, "replay")
    verdict, _ = trace_check(trace, [pid], workdir)
    print(json.dumps({"property": pid, "breaches": verdict["errs"][pid], "panics": stats["panics"]}))
    return 1 if verdict["errs"][pid] else 0


def main(argv):
    if not argv:
        print(__doc__)
        return 2
    pid = argv[0]
    tier = os.environ.get("VERIF_TIER", "quick")
    if "--tier" in argv:
        tier = argv[argv.index("--tier") + 1]
    seed = int(os.environ.get("VERIF_SEED", "1"))
    try:
        if "--replay" in argv:
            return replay(pid, argv[argv.index("--replay") + 1])
        if pid in ENGINE_PROPS:
            return check_engine_property(pid, tier, seed)
        print("no check registered for", pid)
        return 2
    except ToolError as e:
        print("TOOL-ERROR:", e)
        return 2
