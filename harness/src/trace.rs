//! ndjson trace writer.  One JSON object per line; integers are kept 32-bit safe for TLC.

use serde_json::{Map, Value};
use std::io::Write;

pub struct Trace {
    pub lines: Vec<String>,
    pub run: u64,
    pub seq: u64,
}

impl Trace {
    pub fn new() -> Trace { Trace { lines: Vec::new(), run: 0, seq: 0 } }

    pub fn begin_run(&mut self, run: u64) { self.run = run; self.seq = 0; }

    pub fn emit(&mut self, ev: &str, fields: Vec<(&str, Value)>) {
        self.seq += 1;
        let mut m = Map::new();
        m.insert("ev".into(), Value::from(ev));
        m.insert("run".into(), Value::from(self.run));
        m.insert("seq".into(), Value::from(self.seq));
        for (k, v) in fields { m.insert(k.to_string(), v); }
        self.lines.push(Value::Object(m).to_string());
    }

    pub fn write_to(&self, path: &str) -> std::io::Result<()> {
        let mut f = std::io::BufWriter::new(std::fs::File::create(path)?);
        for l in &self.lines { writeln!(f, "{}", l)?; }
        Ok(())
    }
}

pub fn clamp31(v: u64) -> i64 { if v > 0x7FFF_FFFF { 0x7FFF_FFFF } else { v as i64 } }

/// Payload carrying an operation tag: "p<tag>;" followed by a tag-dependent filler up to `size` bytes
pub fn payload_for(tag: u64, size: usize) -> Vec<u8> {
    let mut payload = format!("p{};", tag).into_bytes();
    while payload.len() < size { payload.push(b'a' + ((payload.len() * 7 + tag as usize) % 23) as u8); }
    payload
}
/// The tag a payload carries, if any
pub fn tag_of(payload: &[u8]) -> Option<u64> {
    if payload.first() != Some(&b'p') { return None; }
    let end = payload.iter().position(|b| *b == b';')?;
    std::str::from_utf8(&payload[1..end]).ok()?.parse().ok()
}
/// (tag, payload is exactly what payload_for makes for that tag and length)
pub fn check_payload(payload: &[u8]) -> (u64, bool) {
    match tag_of(payload) { Some(t) => (t, payload == payload_for(t, payload.len()).as_slice()), None => (0, false) }
}
