"""Bounded instances of EngineMC per property: constants of the TLC configuration files.
quick = the instance run on every change; thorough = the deepest instance that still finishes."""

BASE = dict(PidMax=3, TPS=2, UnitsOn="TRUE", CfgSet="Cfg_One", SubmitSet="Sub_Acked", ConnackSet="Ck_Plain",
            AckHows='{"normal"}', AckWhich='{"oldest"}', InPubSet="In_None", Others="{}", Caps="{1, 3}",
            MaxOps=2, MaxConns=2, MaxIn=0, Horizon=0, Deadline=100, EarlyConnack="FALSE", Faithful="FALSE",
            Which='{"C01"}', KnownRules='{}', ExportDepth=0, ExportEvery=1, EngDefects='{}')

STATE_INVARIANTS = ["NoPanic", "MonitorsQuiet", "UserOpsTracked", "NoLiveIdTwiceInAQueue", "AllocConsistent", "PendingBound",
                    "NoStrandedWork", "ReceiveMaximumRespected", "Witness"]

def inst(**kw):
    d = dict(BASE); d.update(kw); return d

ADV = '{"normal", "fail", "wrongtype", "unknownid", "dup", "wrongcount"}'

# Sizes measured with 12 workers on an idle 16-core box are in the comments (distinct states / seconds).  The time budget of an
# instance is soft (tools/checklib.py run_mc): an instance that does not finish reports how far it got, and the evidence says so.
INSTANCES = {
 "C01": {"quick": [inst(Which='{"C01", "C02"}', SubmitSet="Sub_All", AckHows='{"normal", "fail"}', AckWhich='{"oldest", "newest"}', Others='{"Reset"}', CfgSet="Cfg_Versions"),     # 165k / 20 s
                   inst(Which='{"C01"}', SubmitSet="Sub_Q12Big", AckHows=ADV, AckWhich='{"oldest", "newest"}', Others='{"Reset"}', MaxConns=1)],
         "thorough": [inst(Which='{"C01", "C02"}', SubmitSet="Sub_All", AckHows=ADV, AckWhich='{"oldest", "newest"}', Others='{"Reset", "Disconnect"}', CfgSet="Cfg_Policies", MaxOps=2),
                      inst(Which='{"C01"}', SubmitSet="Sub_Acked", AckHows='{"normal", "fail"}', AckWhich='{"oldest", "newest"}', Others='{"Reset"}', MaxOps=3)]},
 "C02": {"quick": [inst(Which='{"C02"}', SubmitSet="Sub_All", CfgSet="Cfg_Versions")],                                                                                                   # 87k / 19 s
         "thorough": [inst(Which='{"C02"}', SubmitSet="Sub_All", CfgSet="Cfg_Versions", MaxOps=3)]},
 "C04": {"quick": [inst(Which='{"C04"}', SubmitSet="Sub_Q12Big", MaxConns=3, Caps="{1, 3}", InPubSet="In_Q1", MaxIn=1)],                                                             # 154k / 34 s
         "thorough": [inst(Which='{"C04"}', SubmitSet="Sub_Q12Big", MaxConns=3, CfgSet="Cfg_Policies", InPubSet="In_Q1", MaxIn=1, AckHows='{"normal", "fail", "dup"}')]},
 "C05": {"quick": [inst(Which='{"C05"}', SubmitSet="Sub_Q1", InPubSet="In_Basic", MaxIn=3, MaxOps=1, Others='{"InPubrel", "InPubrelUnknown"}'),
                   # small: inbound only, two connections, every transition exported and replayed
                   inst(Which='{"C05"}', SubmitSet="Sub_Q1", InPubSet="In_Q2", MaxIn=2, MaxOps=0, Others='{"InPubrel"}', Caps="{3}", _export_every=1)],                                      # 188k / 31 s
         "thorough": [inst(Which='{"C05"}', SubmitSet="Sub_Q1", InPubSet="In_Basic", MaxIn=4, MaxOps=1, MaxConns=3, Others='{"InPubrel", "InPubrelUnknown"}')]},
 "C06": {"quick": [inst(Which='{"C06"}', SubmitSet="Sub_Acked", PidMax=2, MaxOps=3, AckHows='{"normal", "fail"}'),                                                                     # 40k / 20 s
                   inst(Which='{"C06"}', SubmitSet="Sub_Acked", PidMax=2, MaxOps=2, AckHows='{"normal", "dup", "unknownid"}', Caps="{3}")],
         "thorough": [inst(Which='{"C06"}', SubmitSet="Sub_Acked", PidMax=2, MaxOps=3, MaxConns=3, AckHows='{"normal", "fail"}', CfgSet="Cfg_Policies"),
                      inst(Which='{"C06"}', SubmitSet="Sub_Acked", PidMax=2, MaxOps=3, AckHows=ADV)]},
 "C07": {"quick": [inst(Which='{"C07"}', CfgSet="Cfg_RejoinBig", ConnackSet="Ck_Handshake", EarlyConnack="TRUE", MaxConns=2, MaxOps=0, Others='{"Disconnect", "Reset"}', Horizon=2, Deadline=2),
                   # small: every history is exported (three connections with every mix of accepted / rejected / session-present CONNACKs under every rejoin policy)
                   inst(Which='{"C07"}', CfgSet="Cfg_Rejoin", ConnackSet="Ck_Handshake", EarlyConnack="FALSE", MaxConns=3, MaxOps=0, Others='{}', Caps="{3}", _export_every=1)],   # 730 / 5 s
         "thorough": [inst(Which='{"C07"}', CfgSet="Cfg_RejoinBig", ConnackSet="Ck_Handshake", EarlyConnack="TRUE", MaxConns=3, MaxOps=1, Others='{"Disconnect", "Pingresp", "Reset", "Garbage", "Auth", "ServerDisconnect"}', Horizon=3, Deadline=2, AckHows='{"normal", "dup"}')]},
 # EngineLive adds AlwaysDrains: from every connected state a faithful driver and a responsive broker finish every operation (69 s)
 "C08": {"quick": [inst(Which='{"C08"}', CfgSet="Cfg_Wake", SubmitSet="Sub_Big2", ConnackSet="Ck_Rm1Ka", Faithful="TRUE", Horizon=3, Deadline=3, Others='{"Pingresp"}', Caps="{1, 2}", MaxConns=1,
                        DrainFuel=60, _module="EngineLive", _more_invariants=["AlwaysDrains"])],   # 111k / 69 s
         "thorough": [inst(Which='{"C08"}', CfgSet="Cfg_Wake", SubmitSet="Sub_Big", ConnackSet="Ck_Rm1Ka", Faithful="TRUE", Horizon=4, Deadline=3, Others='{"Pingresp", "Disconnect"}', Caps="{1, 2}",
                           DrainFuel=80, _module="EngineLive", _more_invariants=["AlwaysDrains"]),
                      inst(Which='{"C08"}', CfgSet="Cfg_Drain", SubmitSet="Sub_Acked", ConnackSet="Ck_Rm", Faithful="FALSE", MaxOps=2, MaxConns=2, DrainFuel=80, _module="EngineLive", _more_invariants=["AlwaysDrains"])]},
 "C09": {"quick": [inst(Which='{"C09"}', CfgSet="Cfg_Drain", ConnackSet="Ck_Rm", MaxOps=3, SubmitSet="Sub_Acked")],                                                                   # 417k / 50 s
         "thorough": [inst(Which='{"C09"}', CfgSet="Cfg_Drain", ConnackSet="Ck_Rm", MaxOps=3, MaxConns=3, SubmitSet="Sub_Acked", AckWhich='{"oldest", "newest"}')]},
 "C10": {"quick": [inst(Which='{"C10"}', SubmitSet="Sub_Mix3", MaxOps=3, ConnackSet="Ck_Rm1Plain")],
         "thorough": [inst(Which='{"C10"}', SubmitSet="Sub_All", MaxOps=3, MaxConns=3, ConnackSet="Ck_Rm1Plain", CfgSet="Cfg_Policies")]},
 "C11": {"quick": [inst(Which='{"C11"}', SubmitSet="Sub_Timeouts2", AckHows=ADV, AckWhich='{"oldest"}', InPubSet="In_Q2only", MaxIn=1, EarlyConnack="TRUE", ConnackSet="Ck_Fail",
                        Others='{"Pingresp", "ServerDisconnect", "Auth", "Garbage", "InPubrel", "InPubrelUnknown", "Disconnect", "Reset"}', Horizon=2, CfgSet="Cfg_Ka1", KnownRules='{"late-ack-after-timeout"}')],
         "thorough": [inst(Which='{"C11"}', SubmitSet="Sub_Timeouts", AckHows=ADV, AckWhich='{"oldest", "newest"}', InPubSet="In_Basic", MaxIn=2, EarlyConnack="TRUE", ConnackSet="Ck_Fail",
                           Others='{"Pingresp", "ServerDisconnect", "Auth", "Garbage", "InPubrel", "InPubrelUnknown", "Disconnect", "Reset"}', Horizon=3, CfgSet="Cfg_Ka1", KnownRules='{"late-ack-after-timeout"}')]},
 "C14": {"quick": [inst(Which='{"C14"}', CfgSet="Cfg_KeepAlive", ConnackSet="Ck_Ka", Faithful="TRUE", Horizon=9, Deadline=20, MaxOps=1, SubmitSet="Sub_Q1", Others='{"Pingresp"}', MaxConns=1)],    # 114k / 60 s
         "thorough": [inst(Which='{"C14"}', CfgSet="Cfg_KeepAlive", ConnackSet="Ck_Ka", Faithful="TRUE", Horizon=12, Deadline=30, MaxOps=2, SubmitSet="Sub_Acked", Others='{"Pingresp"}', MaxConns=2)]},
 "C15": {"quick": [inst(Which='{"C15"}', CfgSet="Cfg_Policies4", SubmitSet="Sub_All")],
         "thorough": [inst(Which='{"C15"}', CfgSet="Cfg_Policies", SubmitSet="Sub_All", MaxOps=3, MaxConns=2)]},
 # second instance: publishes of exact sizes around a 30-byte Maximum Packet Size under every alias resolver (sizes on the wire are exact: Engine.tla PubWire)
 "C16": {"quick": [inst(Which='{"C16"}', SubmitSet="Sub_Validation", ConnackSet="Ck_Caps", MaxConns=1, KnownRules='{"timing"}'),
                   inst(Which='{"C16", "C17"}', CfgSet="Cfg_AliasExact", SubmitSet="Sub_Exact", ConnackSet="Ck_Exact", MaxConns=1, MaxOps=3, Caps="{3}", KnownRules='{"timing"}', _export_every=3)],
         "thorough": [inst(Which='{"C16"}', SubmitSet="Sub_Validation", ConnackSet="Ck_Caps", MaxConns=2, MaxOps=3, KnownRules='{"timing"}'),
                      inst(Which='{"C16", "C17"}', CfgSet="Cfg_AliasExact", SubmitSet="Sub_Exact", ConnackSet="Ck_Exact", MaxConns=2, MaxOps=3, Caps="{3}", KnownRules='{"timing"}', _export_every=3)]},
 "C17": {"quick": [inst(Which='{"C17"}', CfgSet="Cfg_Alias", SubmitSet="Sub_Alias", ConnackSet="Ck_Alias", MaxOps=3, MaxConns=2, Caps="{3}"),
                   inst(Which='{"C17"}', CfgSet="Cfg_AliasIn", InPubSet="In_Alias", MaxIn=3, MaxOps=0, MaxConns=2, Caps="{3}", ConnackSet="Ck_Plain", _export_every=1)],   # 985 states: every transition exported
         "thorough": [inst(Which='{"C17"}', CfgSet="Cfg_Alias", SubmitSet="Sub_Alias", ConnackSet="Ck_Alias", InPubSet="In_Alias", MaxIn=2, MaxOps=3, MaxConns=2)]},
 "C18": {"quick": [inst(Which='{"C18"}', CfgSet="Cfg_Retries", SubmitSet="Sub_Timeouts2", Horizon=3, AckHows='{"normal", "fail"}')],
         "thorough": [inst(Which='{"C18"}', CfgSet="Cfg_PoliciesRetries", SubmitSet="Sub_Timeouts", Horizon=4, MaxConns=3, AckHows='{"normal", "fail"}')]},
}

# Defect switches of Engine.tla (EngDefects): a bounded instance with the switch set; TLC must refute one of the invariants listed.
# This is the check of the checks: the instance and the monitor of the property are able to see a slip of that kind on the model
# (tools/checklib.py run_engine_defects; the counterexample is replayed on the real engine as one more scenario, where it must pass).
ENGINE_DEFECTS = {
 "C16": [("validate-before-alias", inst(Which='{"C16"}', CfgSet="Cfg_AliasExact", SubmitSet="Sub_Exact", ConnackSet="Ck_Exact", MaxConns=1, MaxOps=2, Caps="{3}", KnownRules='{"timing"}'), ["MonitorsQuiet"])],
 "C04": [("pubrec-nomatch-terminal", inst(Which='{"C04"}', SubmitSet="Sub_Q2", AckHows='{"normal", "nomatch"}', MaxConns=1, MaxOps=1, Caps="{3}"), ["MonitorsQuiet"])],
 "C01": [("pubrec-nomatch-terminal", inst(Which='{"C01"}', SubmitSet="Sub_Q2", AckHows='{"normal", "nomatch"}', MaxConns=1, MaxOps=1, Caps="{3}"), ["MonitorsQuiet"])],
 "C06": [("alloc-cleared-on-every-connack", inst(Which='{"C06"}', SubmitSet="Sub_Q1", PidMax=2, MaxOps=2, Caps="{3}"), ["AllocConsistent", "MonitorsQuiet"])],
 "C09": [("qos2-bypasses-receive-maximum", inst(Which='{"C09"}', ConnackSet="Ck_Rm1", MaxOps=2, MaxConns=1, SubmitSet="Sub_Q12Big", Caps="{3}"), ["MonitorsQuiet", "ReceiveMaximumRespected"])],
 "C17": [("inbound-aliases-survive-resumed-session", inst(Which='{"C17"}', CfgSet="Cfg_AliasIn", InPubSet="In_Alias", MaxIn=2, MaxOps=0, MaxConns=2, Caps="{3}", ConnackSet="Ck_Plain"), ["MonitorsQuiet"])],
 "C05": [("qos2in-kept-when-nothing-in-flight", inst(Which='{"C05"}', SubmitSet="Sub_Q1", InPubSet="In_Q2only", MaxIn=2, MaxOps=0, MaxConns=2, Caps="{3}"), ["MonitorsQuiet"])],
 "C14": [("ping-pushout-uses-requested-keep-alive", inst(Which='{"C14"}', CfgSet="Cfg_KeepAlive", ConnackSet="Ck_Ka", Faithful="TRUE", Horizon=6, Deadline=20, MaxOps=1, SubmitSet="Sub_Q1", Others='{"Pingresp"}', MaxConns=1, Caps="{3}"), ["MonitorsQuiet"])],
 "C07": [("settings-wiped-at-open", inst(Which='{"C07"}', CfgSet="Cfg_Rejoin", ConnackSet="Ck_Handshake", MaxConns=3, MaxOps=0, Others='{}', Caps="{3}"), ["MonitorsQuiet"])],
 "C15": [("policy-before-inflight-exceptions", inst(Which='{"C15"}', CfgSet="Cfg_Policies4", SubmitSet="Sub_Q12Big", MaxOps=1, MaxConns=3, Caps="{1, 3}"), ["MonitorsQuiet"])],
 "C18": [("interruptions-counted-when-bound", inst(Which='{"C18"}', CfgSet="Cfg_Retries", SubmitSet="Sub_Q12Big", MaxOps=2, MaxConns=3, Caps="{1, 3}"), ["MonitorsQuiet"])],
 "C08": [("timer-dropped-while-write-pending", inst(Which='{"C08"}', SubmitSet="Sub_Timeouts2", Horizon=3, MaxOps=1, MaxConns=1, Caps="{3}"), ["NoStrandedWork", "MonitorsQuiet"])],
 "C10": [("resubmit-unsorted", inst(Which='{"C10"}', SubmitSet="Sub_Q1", MaxOps=2, MaxConns=2, Caps="{3}"), ["MonitorsQuiet"])],
}

SUBST = {"CfgSet", "SubmitSet", "ConnackSet", "InPubSet"}

def cfg_text(d, invariants=None):
    lines = ["SPECIFICATION Spec", "CONSTANTS"]
    for k, v in d.items():
        if k.startswith("_"):
            continue
        lines.append("  %s %s %s" % (k, "<-" if k in SUBST else "=", v))
    lines.append("VIEW View")
    for i in (invariants or STATE_INVARIANTS) + list(d.get("_more_invariants", [])):
        lines.append("INVARIANT " + i)
    lines.append("ACTION_CONSTRAINT ExportEdge")
    lines.append("CHECK_DEADLOCK FALSE")
    return "\n".join(lines) + "\n"

if __name__ == "__main__":
    import sys
    pid, tier = sys.argv[1], sys.argv[2]
    print(cfg_text(INSTANCES[pid][tier][0]))

# depth from which decision histories are exported as scripts (S1): one state in EXPORT_EVERY of those deeper than this
EXPORT_DEPTH = {pid: {"quick": 6, "thorough": 6} for pid in INSTANCES}
EXPORT_EVERY = {"quick": 41, "thorough": 17}      # of the transitions generated (edge export)
