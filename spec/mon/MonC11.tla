------------------------------- MODULE MonC11 -------------------------------
(* C11 - server misbehaviour or odd event timing gives a clean error, never a panic; after an
   error nothing more is emitted or accepted on that connection; a server that follows the
   protocol is never reported as violating it; no configuration value the builders accept makes the
   client panic or abort its event loop. *)
EXTENDS MonBase

Init0 == [run |-> 0, skip |-> FALSE, errs |-> <<>>,
          errored |-> FALSE,     \* an entry point returned an error on the current connection
          open |-> FALSE,
          flushed |-> FALSE,     \* the CONNECT of this connection has been written and its write completed
          connectTx |-> FALSE,
          pids |-> EmptyMap,     \* op -> packet id it was last transmitted with
          timedOut |-> {}]       \* packet ids whose operation was failed by its ack timeout on this connection

ProtocolComplaint(r) == r \in {"ProtocolError", "DecodingFailure", "InvalidInboundTopicAlias", "PacketValidationFailure"}

Apply(m, e) ==
    IF e.ev = "Cfg" THEN [Init0 EXCEPT !.run = e.run, !.errs = m.errs]
    ELSE IF m.skip THEN m
    ELSE CASE e.ev = "Panic" -> Breach(m, e, "panic")
           \* client-level runs (real tokio / threaded client, extreme configuration values the builders accept): an event loop
           \* that is gone although the client was never closed has panicked or aborted
           [] e.ev = "End" /\ "loopAlive" \in DOMAIN e -> IF e.loopAlive = 0 /\ e.closed = 0 THEN Breach(m, e, "panic") ELSE m
           [] e.ev = "Open" -> [m EXCEPT !.errored = (e.result # "ok"), !.open = (e.result = "ok"), !.flushed = FALSE, !.connectTx = FALSE, !.timedOut = {}]
           [] e.ev \in {"Close", "Reset"} -> [m EXCEPT !.errored = FALSE, !.open = FALSE, !.timedOut = {}]
           [] e.ev = "Tx" /\ e.partial = 0 /\ e.type = "CONNECT" -> [m EXCEPT !.connectTx = TRUE]
           [] e.ev = "Tx" /\ e.partial = 0 /\ e.op # 0 /\ e.pid # 0 -> [m EXCEPT !.pids = Put(@, e.op, e.pid)]
           [] e.ev = "Service" ->
                  IF m.errored /\ e.out > 0 THEN Breach(m, e, "tx-after-error")
                  ELSE IF m.errored /\ e.result = "ok" /\ m.open THEN Breach(m, e, "accepted-after-error")
                  ELSE [m EXCEPT !.errored = @ \/ (e.result # "ok" /\ m.open)]
           [] e.ev = "WriteDone" ->
                  IF m.errored /\ e.result = "ok" /\ m.open THEN Breach(m, e, "accepted-after-error")
                  ELSE [m EXCEPT !.errored = @ \/ (e.result # "ok" /\ m.open), !.flushed = @ \/ (m.connectTx /\ e.result = "ok")]
           [] e.ev = "Complete" /\ e.err = "AckTimeout" /\ Has(m.pids, e.op) -> [m EXCEPT !.timedOut = @ \cup {m.pids[e.op]}]
           [] e.ev = "Rx" ->
                  IF m.errored /\ e.result = "ok" THEN Breach(m, e, "accepted-after-error")
                  ELSE IF m.errored THEN m
                  ELSE IF e.type = "CONNACK" /\ e.result = "ok" /\ ~m.flushed THEN Breach(m, e, "connack-before-flush-accepted")
                  ELSE IF e.alllegal = 1 /\ ProtocolComplaint(e.result) THEN
                           Breach(m, e, IF IsAckType(e.type) /\ e.pid \in m.timedOut THEN "late-ack-after-timeout" ELSE "false-protocol-error")
                  ELSE [m EXCEPT !.errored = (e.result # "ok")]
           [] OTHER -> m
=============================================================================
