//! Independent reference MQTT 5 / 3.1.1 codec, written from the OASIS specifications (not from
//! the crate under test).  Table driven: per packet kind a list of variable-header fields and a
//! property table.  Packets are neutral (name, value) lists whose names equal those of the
//! crate's `verif::flatten_packet`, so the two can be compared field by field.
//!
//! The structure (layouts, property identifiers and types, reason-code tables) is itself checked
//! against spec/Codec.tla by the C02/C03 checks.

use std::collections::BTreeMap;

#[derive(Clone, Debug, PartialEq, Eq, PartialOrd, Ord)]
pub enum V {
    None,
    U(u64),
    Flag(bool),
    S(String),
    Bytes(Vec<u8>),
    List(Vec<V>),
    Pair(String, String),
}

#[derive(Clone, Debug, PartialEq, Eq)]
pub struct Packet {
    pub ptype: u8,
    pub f: BTreeMap<String, V>,
}

pub const CONNECT: u8 = 1;
pub const CONNACK: u8 = 2;
pub const PUBLISH: u8 = 3;
pub const PUBACK: u8 = 4;
pub const PUBREC: u8 = 5;
pub const PUBREL: u8 = 6;
pub const PUBCOMP: u8 = 7;
pub const SUBSCRIBE: u8 = 8;
pub const SUBACK: u8 = 9;
pub const UNSUBSCRIBE: u8 = 10;
pub const UNSUBACK: u8 = 11;
pub const PINGREQ: u8 = 12;
pub const PINGRESP: u8 = 13;
pub const DISCONNECT: u8 = 14;
pub const AUTH: u8 = 15;

pub fn type_name(t: u8) -> &'static str {
    match t {
        1 => "CONNECT", 2 => "CONNACK", 3 => "PUBLISH", 4 => "PUBACK", 5 => "PUBREC", 6 => "PUBREL",
        7 => "PUBCOMP", 8 => "SUBSCRIBE", 9 => "SUBACK", 10 => "UNSUBSCRIBE", 11 => "UNSUBACK",
        12 => "PINGREQ", 13 => "PINGRESP", 14 => "DISCONNECT", 15 => "AUTH", _ => "INVALID",
    }
}

impl Packet {
    pub fn new(ptype: u8) -> Packet { Packet { ptype, f: BTreeMap::new() } }
    pub fn with(mut self, name: &str, v: V) -> Packet { self.f.insert(name.to_string(), v); self }
    pub fn set(&mut self, name: &str, v: V) { self.f.insert(name.to_string(), v); }
    pub fn get(&self, name: &str) -> &V { self.f.get(name).unwrap_or(&V::None) }
    pub fn u(&self, name: &str) -> Option<u64> { if let V::U(x) = self.get(name) { Some(*x) } else { None } }
    pub fn flag(&self, name: &str) -> bool { matches!(self.get(name), V::Flag(true)) }
    pub fn s(&self, name: &str) -> Option<&str> { if let V::S(x) = self.get(name) { Some(x.as_str()) } else { None } }
    pub fn bytes(&self, name: &str) -> Option<&[u8]> { if let V::Bytes(x) = self.get(name) { Some(x.as_slice()) } else { None } }
    pub fn list(&self, name: &str) -> &[V] { if let V::List(x) = self.get(name) { x.as_slice() } else { &[] } }
    pub fn pid(&self) -> u16 { self.u("packet_id").unwrap_or(0) as u16 }
}

// ---------------------------------------------------------------------------------------------
// property tables (MQTT 5, section 2.2.2.2 and the per-packet property lists)

#[derive(Clone, Copy, PartialEq, Eq, Debug)]
pub enum PT { Byte, BoolByte, U16, U32, Vbi, VbiList, Str, Bin, Pairs }

#[derive(Clone, Copy, PartialEq, Eq, Debug)]
pub enum Ctx { Connect, Will, Connack, Publish, Ack, Subscribe, Suback, Unsubscribe, Unsuback, Disconnect, Auth }

pub fn property_table(ctx: Ctx) -> &'static [(u8, &'static str, PT)] {
    match ctx {
        Ctx::Connect => &[
            (0x11, "session_expiry_interval_seconds", PT::U32), (0x21, "receive_maximum", PT::U16),
            (0x27, "maximum_packet_size_bytes", PT::U32), (0x22, "topic_alias_maximum", PT::U16),
            (0x19, "request_response_information", PT::BoolByte), (0x17, "request_problem_information", PT::BoolByte),
            (0x26, "user_properties", PT::Pairs), (0x15, "authentication_method", PT::Str), (0x16, "authentication_data", PT::Bin),
        ],
        Ctx::Will => &[
            (0x18, "will_delay_interval_seconds", PT::U32), (0x01, "payload_format", PT::Byte),
            (0x02, "message_expiry_interval_seconds", PT::U32), (0x03, "content_type", PT::Str),
            (0x08, "response_topic", PT::Str), (0x09, "correlation_data", PT::Bin), (0x26, "user_properties", PT::Pairs),
        ],
        Ctx::Connack => &[
            (0x11, "session_expiry_interval", PT::U32), (0x21, "receive_maximum", PT::U16), (0x24, "maximum_qos", PT::Byte),
            (0x25, "retain_available", PT::BoolByte), (0x27, "maximum_packet_size", PT::U32),
            (0x12, "assigned_client_identifier", PT::Str), (0x22, "topic_alias_maximum", PT::U16), (0x1F, "reason_string", PT::Str),
            (0x26, "user_properties", PT::Pairs), (0x28, "wildcard_subscriptions_available", PT::BoolByte),
            (0x29, "subscription_identifiers_available", PT::BoolByte), (0x2A, "shared_subscriptions_available", PT::BoolByte),
            (0x13, "server_keep_alive", PT::U16), (0x1A, "response_information", PT::Str), (0x1C, "server_reference", PT::Str),
            (0x15, "authentication_method", PT::Str), (0x16, "authentication_data", PT::Bin),
        ],
        Ctx::Publish => &[
            (0x01, "payload_format", PT::Byte), (0x02, "message_expiry_interval_seconds", PT::U32), (0x23, "topic_alias", PT::U16),
            (0x08, "response_topic", PT::Str), (0x09, "correlation_data", PT::Bin), (0x26, "user_properties", PT::Pairs),
            (0x0B, "subscription_identifiers", PT::VbiList), (0x03, "content_type", PT::Str),
        ],
        Ctx::Ack | Ctx::Suback | Ctx::Unsuback => &[(0x1F, "reason_string", PT::Str), (0x26, "user_properties", PT::Pairs)],
        Ctx::Subscribe => &[(0x0B, "subscription_identifier", PT::Vbi), (0x26, "user_properties", PT::Pairs)],
        Ctx::Unsubscribe => &[(0x26, "user_properties", PT::Pairs)],
        Ctx::Disconnect => &[
            (0x11, "session_expiry_interval_seconds", PT::U32), (0x1F, "reason_string", PT::Str),
            (0x26, "user_properties", PT::Pairs), (0x1C, "server_reference", PT::Str),
        ],
        Ctx::Auth => &[
            (0x15, "authentication_method", PT::Str), (0x16, "authentication_data", PT::Bin),
            (0x1F, "reason_string", PT::Str), (0x26, "user_properties", PT::Pairs),
        ],
    }
}

/// Reason codes the specification admits per packet type (MQTT 5 section 2.4 table)
pub fn legal_reason_codes(ptype: u8) -> &'static [u8] {
    match ptype {
        CONNACK => &[0x00, 0x80, 0x81, 0x82, 0x83, 0x84, 0x85, 0x86, 0x87, 0x88, 0x89, 0x8A, 0x8C, 0x90, 0x95, 0x97, 0x99, 0x9A, 0x9B, 0x9C, 0x9D, 0x9F],
        PUBACK | PUBREC => &[0x00, 0x10, 0x80, 0x83, 0x87, 0x90, 0x91, 0x97, 0x99],
        PUBREL | PUBCOMP => &[0x00, 0x92],
        SUBACK => &[0x00, 0x01, 0x02, 0x80, 0x83, 0x87, 0x8F, 0x91, 0x97, 0x9E, 0xA1, 0xA2],
        UNSUBACK => &[0x00, 0x11, 0x80, 0x83, 0x87, 0x8F, 0x91],
        DISCONNECT => &[0x00, 0x04, 0x80, 0x81, 0x82, 0x83, 0x87, 0x89, 0x8B, 0x8D, 0x8E, 0x8F, 0x90, 0x93, 0x94, 0x95, 0x96, 0x97, 0x98, 0x99, 0x9A, 0x9B, 0x9C, 0x9D, 0x9E, 0x9F, 0xA0, 0xA1, 0xA2],
        AUTH => &[0x00, 0x18, 0x19],
        _ => &[],
    }
}

/// MQTT 3.1.1 CONNACK return codes and SUBACK return codes
pub fn legal_reason_codes311(ptype: u8) -> &'static [u8] {
    match ptype {
        CONNACK => &[0, 1, 2, 3, 4, 5],
        SUBACK => &[0x00, 0x01, 0x02, 0x80],
        _ => &[],
    }
}

// ---------------------------------------------------------------------------------------------
// primitive writers

pub fn vbi(mut v: u32, out: &mut Vec<u8>) {
    loop {
        let mut b = (v % 128) as u8;
        v /= 128;
        if v > 0 { b |= 0x80; }
        out.push(b);
        if v == 0 { break; }
    }
}

pub fn vbi_len(v: u32) -> usize { if v < 128 { 1 } else if v < 16384 { 2 } else if v < 2097152 { 3 } else { 4 } }

fn put_u16(v: u64, out: &mut Vec<u8>) { out.extend_from_slice(&(v as u16).to_be_bytes()); }
fn put_u32(v: u64, out: &mut Vec<u8>) { out.extend_from_slice(&(v as u32).to_be_bytes()); }
fn put_bin(b: &[u8], out: &mut Vec<u8>) { put_u16(b.len() as u64, out); out.extend_from_slice(b); }
fn put_str(s: &str, out: &mut Vec<u8>) { put_bin(s.as_bytes(), out); }

fn encode_property(id: u8, pt: PT, v: &V, out: &mut Vec<u8>) {
    match (pt, v) {
        (_, V::None) => {}
        (PT::Byte, V::U(x)) => { out.push(id); out.push(*x as u8); }
        (PT::BoolByte, V::Flag(x)) => { out.push(id); out.push(*x as u8); }
        (PT::BoolByte, V::U(x)) => { out.push(id); out.push(*x as u8); }
        (PT::U16, V::U(x)) => { out.push(id); put_u16(*x, out); }
        (PT::U32, V::U(x)) => { out.push(id); put_u32(*x, out); }
        (PT::Vbi, V::U(x)) => { out.push(id); vbi(*x as u32, out); }
        (PT::VbiList, V::List(xs)) => { for x in xs { if let V::U(x) = x { out.push(id); vbi(*x as u32, out); } } }
        (PT::Str, V::S(s)) => { out.push(id); put_str(s, out); }
        (PT::Bin, V::Bytes(b)) => { out.push(id); put_bin(b, out); }
        (PT::Pairs, V::List(ps)) => { for p in ps { if let V::Pair(n, val) = p { out.push(id); put_str(n, out); put_str(val, out); } } }
        _ => panic!("refcodec: property {:#x} has value of the wrong shape: {:?}", id, v),
    }
}

/// Encodes the property section (length prefix included).  `order`, when given, lists property
/// ids in the order to emit them (ids not listed follow in table order).
fn encode_properties(ctx: Ctx, p: &Packet, order: Option<&[u8]>, out: &mut Vec<u8>) {
    let table = property_table(ctx);
    let mut ids: Vec<u8> = Vec::new();
    if let Some(order) = order { for id in order { if table.iter().any(|e| e.0 == *id) { ids.push(*id); } } }
    for e in table { if !ids.contains(&e.0) { ids.push(e.0); } }
    let mut body = Vec::new();
    for id in ids {
        let (_, name, pt) = table.iter().find(|e| e.0 == id).unwrap();
        encode_property(id, *pt, p.get(name), &mut body);
    }
    vbi(body.len() as u32, out);
    out.extend_from_slice(&body);
}

fn has_any_property(ctx: Ctx, p: &Packet) -> bool {
    property_table(ctx).iter().any(|(_, name, _)| match p.get(name) { V::None => false, V::List(l) => !l.is_empty(), _ => true })
}

fn finish(first: u8, body: Vec<u8>) -> Vec<u8> {
    let mut out = vec![first];
    vbi(body.len() as u32, &mut out);
    out.extend_from_slice(&body);
    out
}

/// Encodes any packet.  `order` optionally permutes the property section (legal per the spec).
pub fn encode(p: &Packet, v5: bool, order: Option<&[u8]>) -> Vec<u8> {
    let mut b = Vec::new();
    match p.ptype {
        CONNECT => {
            put_str("MQTT", &mut b);
            b.push(if v5 { 5 } else { 4 });
            let will = if let V::List(w) = p.get("will") { Some(will_packet(w)) } else { None };
            let mut flags = 0u8;
            if p.flag("clean_start") { flags |= 0x02; }
            if let Some(w) = &will {
                flags |= 0x04 | ((w.u("qos").unwrap_or(0) as u8) << 3);
                if w.flag("retain") { flags |= 0x20; }
            }
            if p.bytes("password").is_some() { flags |= 0x40; }
            if p.s("username").is_some() { flags |= 0x80; }
            b.push(flags);
            put_u16(p.u("keep_alive_interval_seconds").unwrap_or(0), &mut b);
            if v5 { encode_properties(Ctx::Connect, p, order, &mut b); }
            put_str(p.s("client_id").unwrap_or(""), &mut b);
            if let Some(w) = &will {
                if v5 {
                    let mut wp = w.clone();
                    wp.set("will_delay_interval_seconds", p.get("will_delay_interval_seconds").clone());
                    encode_properties(Ctx::Will, &wp, order, &mut b);
                }
                put_str(w.s("topic").unwrap_or(""), &mut b);
                put_bin(w.bytes("payload").unwrap_or(&[]), &mut b);
            }
            if let Some(u) = p.s("username") { put_str(u, &mut b); }
            if let Some(pw) = p.bytes("password") { put_bin(pw, &mut b); }
            finish(0x10, b)
        }
        CONNACK => {
            b.push(p.flag("session_present") as u8);
            b.push(p.u("reason_code").unwrap_or(0) as u8);
            if v5 { encode_properties(Ctx::Connack, p, order, &mut b); }
            finish(0x20, b)
        }
        PUBLISH => {
            let qos = p.u("qos").unwrap_or(0) as u8;
            let first = 0x30 | ((p.flag("duplicate") as u8) << 3) | (qos << 1) | (p.flag("retain") as u8);
            put_str(p.s("topic").unwrap_or(""), &mut b);
            if qos > 0 { put_u16(p.u("packet_id").unwrap_or(0), &mut b); }
            if v5 { encode_properties(Ctx::Publish, p, order, &mut b); }
            b.extend_from_slice(p.bytes("payload").unwrap_or(&[]));
            finish(first, b)
        }
        PUBACK | PUBREC | PUBREL | PUBCOMP => {
            let first = (p.ptype << 4) | if p.ptype == PUBREL { 2 } else { 0 };
            put_u16(p.u("packet_id").unwrap_or(0), &mut b);
            if v5 {
                let rc = p.u("reason_code").unwrap_or(0) as u8;
                let props = has_any_property(Ctx::Ack, p);
                let long_form = matches!(p.get("long_form"), V::Flag(true));
                if rc != 0 || props || long_form { b.push(rc); }
                if props || long_form { encode_properties(Ctx::Ack, p, order, &mut b); }
            }
            finish(first, b)
        }
        SUBSCRIBE => {
            put_u16(p.u("packet_id").unwrap_or(0), &mut b);
            if v5 { encode_properties(Ctx::Subscribe, p, order, &mut b); }
            for s in p.list("subscriptions") {
                if let V::List(e) = s {
                    if let (V::S(filter), V::U(qos), V::Flag(nl), V::Flag(rap), V::U(rh)) = (&e[0], &e[1], &e[2], &e[3], &e[4]) {
                        put_str(filter, &mut b);
                        let opts = if v5 { (*qos as u8) | ((*nl as u8) << 2) | ((*rap as u8) << 3) | ((*rh as u8) << 4) } else { *qos as u8 };
                        b.push(opts);
                    }
                }
            }
            finish(0x82, b)
        }
        SUBACK | UNSUBACK => {
            put_u16(p.u("packet_id").unwrap_or(0), &mut b);
            if v5 { encode_properties(Ctx::Suback, p, order, &mut b); }
            if v5 || p.ptype == SUBACK {
                for c in p.list("reason_codes") { if let V::U(c) = c { b.push(*c as u8); } }
            }
            finish(p.ptype << 4, b)
        }
        UNSUBSCRIBE => {
            put_u16(p.u("packet_id").unwrap_or(0), &mut b);
            if v5 { encode_properties(Ctx::Unsubscribe, p, order, &mut b); }
            for f in p.list("topic_filters") { if let V::S(f) = f { put_str(f, &mut b); } }
            finish(0xA2, b)
        }
        PINGREQ => finish(0xC0, b),
        PINGRESP => finish(0xD0, b),
        DISCONNECT => {
            if v5 {
                let rc = p.u("reason_code").unwrap_or(0) as u8;
                let props = has_any_property(Ctx::Disconnect, p);
                let long_form = matches!(p.get("long_form"), V::Flag(true));
                if rc != 0 || props || long_form { b.push(rc); }
                if props || long_form { encode_properties(Ctx::Disconnect, p, order, &mut b); }
            }
            finish(0xE0, b)
        }
        AUTH => {
            let rc = p.u("reason_code").unwrap_or(0) as u8;
            let props = has_any_property(Ctx::Auth, p);
            if rc != 0 || props { b.push(rc); encode_properties(Ctx::Auth, p, order, &mut b); }
            finish(0xF0, b)
        }
        _ => panic!("refcodec: cannot encode packet type {}", p.ptype),
    }
}

fn will_packet(w: &[V]) -> Packet {
    let mut p = Packet::new(PUBLISH);
    for e in w { if let V::List(kv) = e { if let V::S(k) = &kv[0] { p.f.insert(k.clone(), kv[1].clone()); } } }
    p
}

fn will_to_value(p: &Packet) -> V {
    V::List(p.f.iter().map(|(k, v)| V::List(vec![V::S(k.clone()), v.clone()])).collect())
}

// ---------------------------------------------------------------------------------------------
// decoding

pub struct Rd<'a> { b: &'a [u8], pub pos: usize }

impl<'a> Rd<'a> {
    pub fn new(b: &'a [u8]) -> Rd<'a> { Rd { b, pos: 0 } }
    pub fn left(&self) -> usize { self.b.len() - self.pos }
    pub fn u8(&mut self) -> Result<u8, String> { if self.left() < 1 { return Err("short".into()); } let v = self.b[self.pos]; self.pos += 1; Ok(v) }
    pub fn u16(&mut self) -> Result<u64, String> { if self.left() < 2 { return Err("short".into()); } let v = u16::from_be_bytes([self.b[self.pos], self.b[self.pos + 1]]); self.pos += 2; Ok(v as u64) }
    pub fn u32(&mut self) -> Result<u64, String> { if self.left() < 4 { return Err("short".into()); } let v = u32::from_be_bytes([self.b[self.pos], self.b[self.pos + 1], self.b[self.pos + 2], self.b[self.pos + 3]]); self.pos += 4; Ok(v as u64) }
    pub fn take(&mut self, n: usize) -> Result<&'a [u8], String> { if self.left() < n { return Err("short".into()); } let s = &self.b[self.pos..self.pos + n]; self.pos += n; Ok(s) }
    pub fn bin(&mut self) -> Result<Vec<u8>, String> { let n = self.u16()? as usize; Ok(self.take(n)?.to_vec()) }
    pub fn str(&mut self) -> Result<String, String> { let b = self.bin()?; String::from_utf8(b).map_err(|_| "utf8".to_string()) }
    pub fn vbi(&mut self) -> Result<u64, String> {
        let mut mult = 1u64; let mut v = 0u64;
        for i in 0..4 {
            let b = self.u8()?;
            v += ((b & 0x7F) as u64) * mult; mult *= 128;
            if b & 0x80 == 0 {
                // non-minimal encodings are malformed (MQTT 5 section 1.5.5)
                if i > 0 && b == 0 { return Err("vbi-overlong".into()); }
                return Ok(v);
            }
        }
        Err("vbi".into())
    }
}

fn decode_properties(ctx: Ctx, r: &mut Rd, p: &mut Packet) -> Result<(), String> {
    let table = property_table(ctx);
    for (_, name, _) in table { p.f.entry(name.to_string()).or_insert(V::None); }
    let len = r.vbi()? as usize;
    let section = r.take(len)?;
    let mut r = Rd::new(section);
    while r.left() > 0 {
        let id = r.u8()?;
        let (_, name, pt) = table.iter().find(|e| e.0 == id).ok_or_else(|| format!("property {:#x} not allowed here", id))?;
        let existing = p.get(name).clone();
        let repeatable = matches!(pt, PT::Pairs | PT::VbiList);
        if !repeatable && existing != V::None { return Err(format!("duplicate property {:#x}", id)); }
        let v = match pt {
            PT::Byte => V::U(r.u8()? as u64),
            PT::BoolByte => { let b = r.u8()?; if b > 1 { return Err("bool property".into()); } V::Flag(b == 1) }
            PT::U16 => V::U(r.u16()?),
            PT::U32 => V::U(r.u32()?),
            PT::Vbi => V::U(r.vbi()?),
            PT::Str => V::S(r.str()?),
            PT::Bin => V::Bytes(r.bin()?),
            PT::VbiList => { let mut l = if let V::List(l) = existing { l } else { Vec::new() }; l.push(V::U(r.vbi()?)); V::List(l) }
            PT::Pairs => { let mut l = if let V::List(l) = existing { l } else { Vec::new() }; let n = r.str()?; let v = r.str()?; l.push(V::Pair(n, v)); V::List(l) }
        };
        p.set(name, v);
    }
    Ok(())
}

fn none_fields(ctx: Ctx, p: &mut Packet) { for (_, name, _) in property_table(ctx) { p.f.entry(name.to_string()).or_insert(V::None); } }

/// Decodes one packet body.  Strict: anything the specification calls malformed is an error.
pub fn decode(first: u8, body: &[u8], v5: bool) -> Result<Packet, String> {
    let ptype = first >> 4;
    let flags = first & 0x0F;
    let mut r = Rd::new(body);
    let mut p = Packet::new(ptype);
    match ptype {
        CONNECT => {
            if flags != 0 { return Err("flags".into()); }
            if r.str()? != "MQTT" { return Err("protocol name".into()); }
            let level = r.u8()?;
            if level != if v5 { 5 } else { 4 } { return Err("protocol level".into()); }
            let cf = r.u8()?;
            if cf & 1 != 0 { return Err("reserved connect flag".into()); }
            p.set("clean_start", V::Flag(cf & 2 != 0));
            p.set("keep_alive_interval_seconds", V::U(r.u16()?));
            if v5 { decode_properties(Ctx::Connect, &mut r, &mut p)?; } else { none_fields(Ctx::Connect, &mut p); }
            p.set("client_id", V::S(r.str()?));
            p.f.entry("will_delay_interval_seconds".into()).or_insert(V::None);
            if cf & 4 != 0 {
                let mut w = Packet::new(PUBLISH);
                if v5 { decode_properties(Ctx::Will, &mut r, &mut w)?; } else { none_fields(Ctx::Will, &mut w); }
                let delay = w.f.remove("will_delay_interval_seconds").unwrap_or(V::None);
                p.set("will_delay_interval_seconds", delay);
                w.set("topic", V::S(r.str()?));
                w.set("payload", V::Bytes(r.bin()?));
                let wq = (cf >> 3) & 3;
                if wq == 3 { return Err("will qos".into()); }
                w.set("qos", V::U(wq as u64));
                w.set("retain", V::Flag(cf & 0x20 != 0));
                p.set("will", will_to_value(&w));
            } else {
                if cf & 0x38 != 0 { return Err("will flags without will".into()); }
                p.set("will", V::None);
            }
            p.set("username", if cf & 0x80 != 0 { V::S(r.str()?) } else { V::None });
            p.set("password", if cf & 0x40 != 0 { V::Bytes(r.bin()?) } else { V::None });
        }
        CONNACK => {
            if flags != 0 { return Err("flags".into()); }
            let ack = r.u8()?;
            if ack > 1 { return Err("connack flags".into()); }
            p.set("session_present", V::Flag(ack == 1));
            let rc = r.u8()?;
            let legal = if v5 { legal_reason_codes(CONNACK) } else { legal_reason_codes311(CONNACK) };
            if !legal.contains(&rc) { return Err("reason code".into()); }
            p.set("reason_code", V::U(rc as u64));
            if v5 { decode_properties(Ctx::Connack, &mut r, &mut p)?; } else { none_fields(Ctx::Connack, &mut p); }
        }
        PUBLISH => {
            let qos = (flags >> 1) & 3;
            if qos == 3 { return Err("qos".into()); }
            p.set("qos", V::U(qos as u64));
            p.set("duplicate", V::Flag(flags & 8 != 0));
            p.set("retain", V::Flag(flags & 1 != 0));
            p.set("topic", V::S(r.str()?));
            p.set("packet_id", V::U(if qos > 0 { r.u16()? } else { 0 }));
            if v5 { decode_properties(Ctx::Publish, &mut r, &mut p)?; } else { none_fields(Ctx::Publish, &mut p); }
            let n = r.left();
            p.set("payload", V::Bytes(r.take(n)?.to_vec()));
        }
        PUBACK | PUBREC | PUBREL | PUBCOMP => {
            if flags != if ptype == PUBREL { 2 } else { 0 } { return Err("flags".into()); }
            p.set("packet_id", V::U(r.u16()?));
            p.set("reason_code", V::U(0));
            none_fields(Ctx::Ack, &mut p);
            if v5 && r.left() > 0 {
                let rc = r.u8()?;
                if !legal_reason_codes(ptype).contains(&rc) { return Err("reason code".into()); }
                p.set("reason_code", V::U(rc as u64));
                if r.left() > 0 { p.f.remove("reason_string"); p.f.remove("user_properties"); decode_properties(Ctx::Ack, &mut r, &mut p)?; }
            }
        }
        SUBSCRIBE => {
            if flags != 2 { return Err("flags".into()); }
            p.set("packet_id", V::U(r.u16()?));
            if v5 { decode_properties(Ctx::Subscribe, &mut r, &mut p)?; } else { none_fields(Ctx::Subscribe, &mut p); }
            let mut subs = Vec::new();
            while r.left() > 0 {
                let f = r.str()?;
                let o = r.u8()?;
                if o & 3 == 3 { return Err("subscription qos".into()); }
                if v5 { if o & 0xC0 != 0 || (o >> 4) & 3 == 3 { return Err("subscription options".into()); } } else if o & 0xFC != 0 { return Err("subscription options".into()); }
                subs.push(V::List(vec![V::S(f), V::U((o & 3) as u64), V::Flag(o & 4 != 0), V::Flag(o & 8 != 0), V::U(((o >> 4) & 3) as u64)]));
            }
            if subs.is_empty() { return Err("no subscriptions".into()); }
            p.set("subscriptions", V::List(subs));
        }
        SUBACK | UNSUBACK => {
            if flags != 0 { return Err("flags".into()); }
            p.set("packet_id", V::U(r.u16()?));
            if v5 { decode_properties(Ctx::Suback, &mut r, &mut p)?; } else { none_fields(Ctx::Suback, &mut p); }
            let mut codes = Vec::new();
            while r.left() > 0 {
                let c = r.u8()?;
                let legal = if v5 { legal_reason_codes(ptype) } else { legal_reason_codes311(ptype) };
                if !legal.contains(&c) { return Err("reason code".into()); }
                codes.push(V::U(c as u64));
            }
            p.set("reason_codes", V::List(codes));
        }
        UNSUBSCRIBE => {
            if flags != 2 { return Err("flags".into()); }
            p.set("packet_id", V::U(r.u16()?));
            if v5 { decode_properties(Ctx::Unsubscribe, &mut r, &mut p)?; } else { none_fields(Ctx::Unsubscribe, &mut p); }
            let mut fs = Vec::new();
            while r.left() > 0 { fs.push(V::S(r.str()?)); }
            if fs.is_empty() { return Err("no filters".into()); }
            p.set("topic_filters", V::List(fs));
        }
        PINGREQ | PINGRESP => { if flags != 0 { return Err("flags".into()); } }
        DISCONNECT => {
            if flags != 0 { return Err("flags".into()); }
            p.set("reason_code", V::U(0));
            none_fields(Ctx::Disconnect, &mut p);
            if v5 && r.left() > 0 {
                let rc = r.u8()?;
                if !legal_reason_codes(DISCONNECT).contains(&rc) { return Err("reason code".into()); }
                p.set("reason_code", V::U(rc as u64));
                if r.left() > 0 { for (_, n, _) in property_table(Ctx::Disconnect) { p.f.remove(*n); } decode_properties(Ctx::Disconnect, &mut r, &mut p)?; }
            }
        }
        AUTH => {
            if !v5 { return Err("auth in 3.1.1".into()); }
            if flags != 0 { return Err("flags".into()); }
            p.set("reason_code", V::U(0));
            none_fields(Ctx::Auth, &mut p);
            if r.left() > 0 {
                let rc = r.u8()?;
                if !legal_reason_codes(AUTH).contains(&rc) { return Err("reason code".into()); }
                p.set("reason_code", V::U(rc as u64));
                for (_, n, _) in property_table(Ctx::Auth) { p.f.remove(*n); }
                decode_properties(Ctx::Auth, &mut r, &mut p)?;
            }
        }
        _ => return Err("packet type".into()),
    }
    if r.left() != 0 { return Err("trailing bytes".into()); }
    Ok(p)
}

/// Result of framing a byte stream
pub struct Framed {
    /// complete frames: (first byte, body, offset of the first byte, offset past the last byte)
    pub frames: Vec<(u8, Vec<u8>, usize, usize)>,
    /// bytes of a trailing incomplete packet (0 if the stream ends on a packet boundary)
    pub trailing: usize,
    /// framing error (bad remaining length) at this offset
    pub error_at: Option<usize>,
}

pub fn frame(stream: &[u8]) -> Framed {
    let mut out = Framed { frames: Vec::new(), trailing: 0, error_at: None };
    let mut pos = 0;
    while pos < stream.len() {
        let start = pos;
        let first = stream[pos];
        let mut r = Rd::new(&stream[pos + 1..]);
        // tolerate over-long remaining-length encodings here; strictness is the decoder's concern
        let mut mult = 1usize; let mut len = 0usize; let mut ok = false; let mut short = false;
        for _ in 0..4 {
            match r.u8() { Ok(b) => { len += ((b & 0x7F) as usize) * mult; mult *= 128; if b & 0x80 == 0 { ok = true; break; } } Err(_) => { short = true; break; } }
        }
        if short { out.trailing = stream.len() - start; return out; }
        if !ok { out.error_at = Some(start); return out; }
        let body_start = pos + 1 + r.pos;
        if stream.len() < body_start + len { out.trailing = stream.len() - start; return out; }
        out.frames.push((first, stream[body_start..body_start + len].to_vec(), start, body_start + len));
        pos = body_start + len;
    }
    out
}

/// FNV-1a hash folded to 31 bits (fits a TLC integer), used as a content fingerprint
pub fn hash31(parts: &[&[u8]]) -> u64 {
    let mut h: u64 = 0xcbf29ce484222325;
    for part in parts { for b in *part { h ^= *b as u64; h = h.wrapping_mul(0x100000001b3); } h ^= 0xff; h = h.wrapping_mul(0x100000001b3); }
    (h ^ (h >> 31)) & 0x7FFF_FFFF
}
