------------------------------- MODULE MonC20 -------------------------------
(* C20 - AWS IoT builder: safe client id, intact custom-auth parameters, 3.1.1 defaults only if unset.

   One Aws event per builder configuration that was put through the real AwsClientBuilder.  Strings are
   sequences of byte values (TLC has no character access to strings); "absent" is the sequence <<-1>>.
     user supplied:   inCid, inConnect (fingerprint of every other connect option), inClient (fingerprint of every
                      client option except drain policy and retry limit), inMode (5 | 311), inDrain ("unset" | "None" |
                      "OneAtATime"), inRetries (-1 unset), auth ("mtls" | "unsigned" | "signed"), authorizer, signature
                      (as supplied), rawSignature (the base64 text it stands for), tokenKey, tokenValue, inUser, inPass
     builder output:  outCid, outConnect, outClient, outDrain, outRetries, outUser, outPass
   Rules are written from the property text. *)
EXTENDS MonBase

Absent == <<-1>>
Init0 == [run |-> 0, skip |-> FALSE, errs |-> <<>>]
B(m, e, rule) == [Breach(m, e, rule) EXCEPT !.skip = FALSE]

\* ---- byte strings -------------------------------------------------------------------------------
Q == 63 Amp == 38 Eq == 61 Pct == 37
IsHex(c) == (c >= 48 /\ c <= 57) \/ (c >= 65 /\ c <= 70) \/ (c >= 97 /\ c <= 102)
HexVal(c) == IF c <= 57 THEN c - 48 ELSE IF c <= 70 THEN c - 55 ELSE c - 87
Unreserved(c) == (c >= 48 /\ c <= 57) \/ (c >= 65 /\ c <= 90) \/ (c >= 97 /\ c <= 122) \/ c \in {45, 46, 95, 126}

IndexOf(s, c) == IF \E i \in 1..Len(s) : s[i] = c THEN CHOOSE i \in 1..Len(s) : s[i] = c /\ \A j \in 1..(i - 1) : s[j] # c ELSE 0
RECURSIVE Split(_, _)
Split(s, c) == LET i == IndexOf(s, c) IN IF i = 0 THEN <<s>> ELSE <<SubSeq(s, 1, i - 1)>> \o Split(SubSeq(s, i + 1, Len(s)), c)

\* a well-formed percent-encoded value: unreserved characters and %XX triplets only
RECURSIVE WellEncoded(_)
WellEncoded(s) == IF s = <<>> THEN TRUE
                  ELSE IF Head(s) = Pct THEN Len(s) >= 3 /\ IsHex(s[2]) /\ IsHex(s[3]) /\ WellEncoded(SubSeq(s, 4, Len(s)))
                  ELSE Unreserved(Head(s)) /\ WellEncoded(Tail(s))
RECURSIVE Decode(_)
Decode(s) == IF s = <<>> THEN <<>>
             ELSE IF Head(s) = Pct /\ Len(s) >= 3 /\ IsHex(s[2]) /\ IsHex(s[3]) THEN <<16 * HexVal(s[2]) + HexVal(s[3])>> \o Decode(SubSeq(s, 4, Len(s)))
             ELSE <<Head(s)>> \o Decode(Tail(s))

AuthorizerKey == <<120, 45, 97, 109, 122, 45, 99, 117, 115, 116, 111, 109, 97, 117, 116, 104, 111, 114, 105, 122, 101, 114, 45, 110, 97, 109, 101>>               \* x-amz-customauthorizer-name
SignatureKey == <<120, 45, 97, 109, 122, 45, 99, 117, 115, 116, 111, 109, 97, 117, 116, 104, 111, 114, 105, 122, 101, 114, 45, 115, 105, 103, 110, 97, 116, 117, 114, 101>>   \* x-amz-customauthorizer-signature

\* the value of query parameter `key`, or Absent; "malformed" if a parameter has no '='
Param(params, key) ==
    LET hits == {i \in 1..Len(params) : LET kv == Split(params[i], Eq) IN Len(kv) >= 2 /\ kv[1] = key}
    IN IF hits = {} THEN Absent
       ELSE LET i == CHOOSE j \in hits : \A k \in hits : j <= k
                p == params[i]
            IN SubSeq(p, Len(key) + 2, Len(p))

CustomAuthOk(e) ==
    \* username = user's username, '?', query string
    LET q == IndexOf(e.outUser, Q)
        prefix == IF q = 0 THEN <<>> ELSE SubSeq(e.outUser, 1, q - 1)
        query == IF q = 0 THEN <<>> ELSE SubSeq(e.outUser, q + 1, Len(e.outUser))
        params == IF query = <<>> THEN <<>> ELSE Split(query, Amp)
        wantPrefix == IF e.inUser = Absent THEN <<>> ELSE e.inUser
    IN [wellformed |-> /\ q # 0
                      /\ prefix = wantPrefix
                      /\ \A i \in 1..Len(params) : IndexOf(params[i], Eq) > 1,
        authorizer |-> e.authorizer = Absent \/ Param(params, AuthorizerKey) = e.authorizer,
        token |-> e.auth # "signed" \/ Param(params, e.tokenKey) = e.tokenValue,
        signature |-> e.auth # "signed" \/ (LET s == Param(params, SignatureKey) IN s # Absent /\ WellEncoded(s) /\ Decode(s) = e.rawSignature)]

Apply(m, e) ==
    IF e.ev = "Cfg" THEN [Init0 EXCEPT !.run = e.run, !.errs = m.errs]
    ELSE IF e.ev = "Panic" THEN B(m, e, "panic")
    ELSE IF e.ev # "Aws" THEN m
    ELSE IF e.outCid = Absent \/ e.outCid = <<>> THEN B(m, e, "client-id-empty")
    ELSE IF e.inCid # Absent /\ e.inCid # <<>> /\ e.outCid # e.inCid THEN B(m, e, "client-id-changed")
    ELSE IF e.outConnect # e.inConnect \/ e.outClient # e.inClient THEN B(m, e, "option-lost")
    ELSE IF e.auth = "mtls" /\ (e.outUser # e.inUser \/ e.outPass # e.inPass) THEN B(m, e, "option-lost")
    ELSE IF e.auth # "mtls" /\ e.outPass # e.inPass THEN B(m, e, "option-lost")
    ELSE IF e.auth # "mtls" /\ ~CustomAuthOk(e).wellformed THEN B(m, e, "query-malformed")
    ELSE IF e.auth # "mtls" /\ (~CustomAuthOk(e).authorizer \/ ~CustomAuthOk(e).token) THEN B(m, e, "query-malformed")
    ELSE IF e.auth # "mtls" /\ ~CustomAuthOk(e).signature THEN B(m, e, "signature-encoding")
    ELSE LET defaults == e.inMode = 311 /\ e.inDrain = "unset" /\ e.inRetries = -1
             wantDrain == IF defaults THEN "OneAtATime" ELSE e.inDrain
             wantRetries == IF defaults THEN 2 ELSE e.inRetries
         IN IF e.outDrain # wantDrain \/ e.outRetries # wantRetries THEN B(m, e, "defaults-misapplied") ELSE m
=============================================================================
