------------------------------- MODULE MonC14 -------------------------------
(* C14 - keep-alive: pings in time, dead peers detected, live peers never timed out.  Judged on
   faithful-driver runs (writes complete at once).  K/2 is half of K seconds (500 ms for K = 1):
   the property quantifies over every K >= 1.  Times are in the trace's unit (ticks per second in
   the run header). *)
EXTENDS MonBase

Init0 == [run |-> 0, skip |-> FALSE, errs |-> <<>>,
          faithful |-> FALSE, unit |-> 1000, pingTmo |-> 0,
          up |-> FALSE,          \* connected, settings known, no error yet
          k |-> 0,
          last |-> 0,            \* time of CONNACK or of the latest transmission
          ping |-> -1,           \* time the outstanding PINGREQ was transmitted, -1 if none
          answered |-> FALSE]    \* the latest PINGREQ was answered before its deadline

Deadline(m) == m.ping + Min(m.pingTmo, (m.k * m.unit) \div 2)

Apply(m, e) ==
    IF e.ev = "Cfg" THEN [Init0 EXCEPT !.run = e.run, !.errs = m.errs, !.faithful = (e.faithful = 1), !.unit = e.unit, !.pingTmo = e.pingTmo]
    ELSE IF m.skip \/ ~m.faithful THEN m
    ELSE CASE e.ev = "Settings" -> [m EXCEPT !.up = TRUE, !.k = e.ka, !.last = e.t, !.ping = -1, !.answered = FALSE]
           [] e.ev \in {"Open", "Close", "Reset"} -> [m EXCEPT !.up = FALSE, !.ping = -1]
           [] e.ev = "Tx" /\ m.up ->
                  IF m.k > 0 /\ e.t0 - m.last > m.k * m.unit THEN Breach(m, e, "gap")
                  ELSE IF e.type = "PINGREQ" /\ e.partial = 0 THEN
                           (IF m.k = 0 THEN Breach(m, e, "ping-with-k0") ELSE [m EXCEPT !.last = e.t, !.ping = e.t, !.answered = FALSE])
                  ELSE [m EXCEPT !.last = e.t]
           \* a response the engine accepted settles the ping.  One that arrives at or after the deadline can only get
           \* here if no service call happened at or after the deadline (that call would have been judged below), so
           \* nothing is excused by this: the statement does not oblige the client to refuse an answer that beats the
           \* service call to the deadline instant.
           [] e.ev = "Rx" /\ m.up /\ e.type = "PINGRESP" /\ e.result = "ok" /\ m.ping >= 0 -> [m EXCEPT !.ping = -1, !.answered = TRUE]
           [] e.ev = "Rx" /\ m.up /\ e.result # "ok" -> [m EXCEPT !.up = FALSE]
           [] e.ev = "WriteDone" /\ m.up /\ e.result # "ok" -> [m EXCEPT !.up = FALSE]
           [] e.ev = "Service" /\ m.up ->
                  IF e.result = "ConnectionClosed" THEN
                      IF m.k = 0 \/ m.ping < 0 THEN Breach(m, e, "false-timeout")
                      ELSE IF e.t < Deadline(m) THEN Breach(m, e, "timeout-early")
                      ELSE [m EXCEPT !.up = FALSE]
                  ELSE IF e.result # "ok" THEN [m EXCEPT !.up = FALSE]
                  ELSE IF m.ping >= 0 /\ e.t >= Deadline(m) THEN Breach(m, e, "timeout-late")
                  ELSE m
           [] e.ev = "Quiesce" /\ m.up /\ e.state = "Connected" /\ m.k > 0 /\ e.t - m.last > m.k * m.unit -> Breach(m, e, "gap")
           [] OTHER -> m
=============================================================================
