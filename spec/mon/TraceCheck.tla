----------------------------- MODULE TraceCheck -----------------------------
(* Code -> spec: folds the selected property monitors over an ndjson trace recorded from the real
   implementation (path in the environment variable TRACE).  One TLC state per event; the verdict
   (all breaches, with run, sequence number and rule) is printed as JSON from the final state,
   and the POSTCONDITION asserts that the whole file was consumed. *)
EXTENDS Naturals, Sequences, TLC, TLCExt, Json, IOUtils

CONSTANT Which          \* set of monitor names to fold, e.g. {"C01", "C06"}

Rec == ndJsonDeserialize(IOEnv.TRACE)

M == INSTANCE Monitors

VARIABLES l, m

Init == l = 1 /\ m = [n \in Which |-> M!MonInit(n)]

Next == /\ l <= Len(Rec)
        /\ l' = l + 1
        /\ m' = [n \in Which |-> M!MonStep(n, m[n], Rec[l])]

Spec == Init /\ [][Next]_<<l, m>>

Verdict ==
    l = Len(Rec) + 1 =>
        PrintT(<<"VERDICT", ToJson([events |-> Len(Rec), errs |-> [n \in Which |-> m[n].errs]])>>)

Consumed == TLCGet("stats").diameter = Len(Rec) + 1
=============================================================================
