------------------------------- MODULE MonC06 -------------------------------
(* C06 - packet identifiers are non-zero, unique among in-flight operations, reused on
   retransmission, and never leak.

   "In use" is read from the wire: a QoS>0 PUBLISH holds its identifier from its first complete
   transmission until it completes or the session is lost; a SUBSCRIBE / UNSUBSCRIBE holds it
   until it completes or its connection ends (they are not part of the session state). *)
EXTENDS MonBase

Init0 == [run |-> 0, skip |-> FALSE, errs |-> <<>>,
          infl |-> EmptyMap,     \* pid -> [op, pub]
          opPid |-> EmptyMap]    \* publish op -> pid it was transmitted with in this session life

NeedsId(e) == e.type \in {"SUBSCRIBE", "UNSUBSCRIBE"} \/ (e.type = "PUBLISH" /\ e.qos > 0)

Apply(m, e) ==
    IF e.ev = "Cfg" THEN [Init0 EXCEPT !.run = e.run, !.errs = m.errs]
    ELSE IF m.skip THEN m
    ELSE CASE e.ev = "Tx" /\ e.partial = 0 /\ NeedsId(e) ->
                  IF e.pid = 0 THEN Breach(m, e, "zero-id")
                  ELSE IF e.op = 0 THEN m
                  ELSE IF Has(m.infl, e.pid) /\ m.infl[e.pid].op # e.op THEN Breach(m, e, "id-in-use")
                  ELSE IF e.type = "PUBLISH" /\ e.dup = 1 /\ Has(m.opPid, e.op) /\ m.opPid[e.op] # e.pid THEN Breach(m, e, "retx-id")
                  ELSE [m EXCEPT !.infl = Put(Drop(@, {p \in DOMAIN @ : @[p].op = e.op}), e.pid, [op |-> e.op, pub |-> e.type = "PUBLISH"]),
                                 !.opPid = IF e.type = "PUBLISH" THEN Put(@, e.op, e.pid) ELSE @]
           [] e.ev = "Complete" ->
                  [m EXCEPT !.infl = Drop(@, {p \in DOMAIN @ : @[p].op = e.op}), !.opPid = Drop(@, {e.op})]
           [] e.ev = "Close" -> [m EXCEPT !.infl = Drop(@, {p \in DOMAIN @ : ~@[p].pub})]
           [] e.ev = "Rx" /\ e.type = "CONNACK" /\ e.result = "ok" /\ e.sp = 0 -> [m EXCEPT !.infl = EmptyMap, !.opPid = EmptyMap]
           [] e.ev = "Reset" -> [m EXCEPT !.infl = EmptyMap, !.opPid = EmptyMap]
           [] e.ev = "Snapshot" /\ e.quiescent = 1 /\ e.unresolved = 0 /\ e.alloc # 0 -> Breach(m, e, "id-leak")
           [] OTHER -> m
=============================================================================
