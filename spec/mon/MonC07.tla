------------------------------- MODULE MonC07 -------------------------------
(* C07 - one faithful CONNECT first, nothing before CONNACK, nothing after DISCONNECT; bad
   handshakes give an error; the surfaced settings are the merge of CONNACK, CONNECT and defaults. *)
EXTENDS MonBase

Init0 == [run |-> 0, skip |-> FALSE, errs |-> <<>>,
          cfg |-> [ka |-> 0, rejoin |-> "", cid |-> "", ohash |-> 0, ver |-> 5, sei |-> 0],
          phase |-> "closed",    \* closed | fresh | sent | up | disc
          deadline |-> 0,
          connected |-> FALSE,   \* a CONNACK has succeeded since the last reset
          assigned |-> "",       \* client id in force from earlier connections
          rx |-> [ok |-> FALSE]] \* the CONNACK that was accepted on this connection

ExpectedClean(m) == CASE m.cfg.rejoin = "Never" -> 1 [] m.cfg.rejoin = "Always" -> 0 [] OTHER -> IF m.connected THEN 0 ELSE 1
ExpectedCid(m) == IF m.cfg.cid # "" THEN m.cfg.cid ELSE m.assigned

OnTx(m, e) ==
    IF m.phase = "disc" THEN Breach(m, e, "tx-after-disconnect")
    ELSE IF e.partial = 1 THEN
             (IF m.phase = "sent" \/ (m.phase = "fresh" /\ e.type # "CONNECT") THEN Breach(m, e, "tx-before-connack") ELSE m)
    ELSE IF m.phase = "fresh" THEN
             IF e.type # "CONNECT" THEN Breach(m, e, "first-not-connect")
             ELSE IF e.ohash # m.cfg.ohash \/ e.ka # m.cfg.ka THEN Breach(m, e, "connect-fields")
             ELSE IF e.clean # ExpectedClean(m) THEN Breach(m, e, "clean-start")
             ELSE IF e.cid # ExpectedCid(m) THEN Breach(m, e, "client-id")
             ELSE [m EXCEPT !.phase = "sent"]
    ELSE IF e.type = "CONNECT" THEN Breach(m, e, "second-connect")
    ELSE IF m.phase = "sent" THEN Breach(m, e, "tx-before-connack")
    ELSE IF m.phase = "closed" THEN Breach(m, e, "tx-before-connack")
    ELSE IF e.type = "DISCONNECT" THEN [m EXCEPT !.phase = "disc"]
    ELSE m

OnRx(m, e) ==
    IF e.result # "ok" THEN m
    ELSE IF e.type = "CONNACK" THEN
             IF m.phase \notin {"sent"} \/ e.rc # 0 THEN Breach(m, e, "bad-connack-accepted")
             ELSE [m EXCEPT !.phase = "up", !.connected = TRUE, !.rx = [ok |-> TRUE, e |-> e]]
    \* "any other packet before CONNACK": bytes that are not (yet) a packet - the beginning of a frame - oblige the client to nothing
    ELSE IF m.phase \in {"fresh", "sent"} /\ e.decoded = 1 THEN Breach(m, e, "pre-connack-packet-accepted")
    ELSE m

Dflt(v, d) == IF v = -1 THEN d ELSE v

OnSettings(m, e) ==
    IF ~m.rx.ok THEN m
    ELSE LET c == m.rx.e
             cid == IF c.acid # "" THEN c.acid ELSE IF m.cfg.cid # "" THEN m.cfg.cid ELSE m.assigned
             good == /\ e.rm = Dflt(c.rm, 65535)
                     /\ e.ka = Dflt(c.ka, m.cfg.ka)
                     /\ e.tam = Dflt(c.tam, 0)
                     /\ e.mqos = Dflt(c.mqos, 2)
                     /\ e.mps = Dflt(c.mps, 268435455)
                     /\ e.ret = Dflt(c.ret, 1) /\ e.wild = Dflt(c.wild, 1) /\ e.subid = Dflt(c.subid, 1) /\ e.shared = Dflt(c.shared, 1)
                     /\ e.sp = c.sp
                     /\ e.sei = Dflt(c.sei, m.cfg.sei)
                     /\ e.cid = cid
         IN IF ~good THEN Breach(m, e, "settings-mismatch") ELSE [m EXCEPT !.assigned = cid]

Apply(m, e) ==
    IF e.ev = "Cfg" THEN [Init0 EXCEPT !.run = e.run, !.errs = m.errs,
                                       !.cfg = [ka |-> e.ka, rejoin |-> e.rejoin, cid |-> e.cid, ohash |-> e.ohash, ver |-> e.ver, sei |-> e.sei]]
    ELSE IF m.skip THEN m
    ELSE CASE e.ev = "Open" /\ e.result = "ok" -> [m EXCEPT !.phase = "fresh", !.deadline = e.deadline, !.rx = [ok |-> FALSE]]
           [] e.ev = "Close" -> [m EXCEPT !.phase = "closed"]
           [] e.ev = "Reset" -> [m EXCEPT !.phase = "closed", !.connected = FALSE, !.assigned = ""]
           [] e.ev = "Tx" -> OnTx(m, e)
           [] e.ev = "Rx" -> OnRx(m, e)
           [] e.ev = "Settings" -> OnSettings(m, e)
           [] e.ev = "Service" /\ m.phase \in {"fresh", "sent"} ->
                  IF e.t >= m.deadline /\ e.result = "ok" THEN Breach(m, e, "deadline-missed")
                  ELSE IF e.t < m.deadline /\ e.result = "ConnectionEstablishmentFailure" THEN Breach(m, e, "deadline-early")
                  ELSE m
           [] OTHER -> m
=============================================================================
